fn main() {}
