#![no_main]
//! libFuzzer target for C10: the differential / round-trip oracle runs inside the target.
//! The one known dependency panic (known_findings.json: alloy-decoder-add-overflow) is tolerated
//! in-target so the campaign continues past it; any other panic or oracle failure aborts.

#[path = "../../harness/src/oracle.rs"]
#[allow(dead_code)]
mod oracle;
mod props {
    #[path = "../../../harness/src/props/c10core.rs"]
    #[allow(dead_code)]
    pub mod c10core;
}

use libfuzzer_sys::fuzz_target;
use props::c10core::{check_bytes, BytesClass};
use std::cell::RefCell;
use std::sync::Once;

thread_local! {
    static LAST_PANIC: RefCell<Option<String>> = const { RefCell::new(None) };
    static ENV: soroban_sdk::Env = {
        let env = soroban_sdk::Env::new_with_config(soroban_sdk::testutils::EnvTestConfig { capture_snapshot_at_drop: false });
        #[allow(deprecated)]
        env.budget().reset_unlimited();
        env
    };
}
static HOOK: Once = Once::new();

fn strict() -> bool {
    std::env::var("VFUZZ_STRICT").is_ok()
}

fuzz_target!(|data: &[u8]| {
    HOOK.call_once(|| {
        let default = std::panic::take_hook();
        std::panic::set_hook(Box::new(move |info| {
            let loc = info.location().map(|l| format!("{}:{}", l.file(), l.line())).unwrap_or_default();
            let msg = if let Some(s) = info.payload().downcast_ref::<&str>() {
                (*s).to_string()
            } else if let Some(s) = info.payload().downcast_ref::<String>() {
                s.clone()
            } else {
                String::new()
            };
            let text = format!("{} @ {}", msg, loc);
            if msg.starts_with("C10 ORACLE") {
                default(info);
            }
            LAST_PANIC.with(|p| *p.borrow_mut() = Some(text));
        }));
    });
    ENV.with(|env| {
        match check_bytes(env, data, &|| LAST_PANIC.with(|p| p.borrow_mut().take())) {
            Ok((a, b)) => {
                if strict() && (a == BytesClass::KnownPanic || b == BytesClass::KnownPanic) {
                    eprintln!("C10 known panic reproduced");
                    std::process::abort();
                }
            }
            Err(e) => {
                eprintln!("C10 ORACLE FAILURE: {}", e);
                std::process::abort();
            }
        }
    });
});
