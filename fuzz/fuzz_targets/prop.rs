#![no_main]
//! Generic coverage-guided target: libFuzzer's bytes are the random choices of a property's own
//! proptest strategy (pass-through RNG), the generated case runs through the property's executor and
//! oracle exactly as in `vcheck`. The property is chosen by VFUZZ_PROP (one property per process).
//! A failing case is written as JSON into VFUZZ_OUT (to be re-run, shrunk and reported by `vcheck`)
//! and the process aborts so that libFuzzer keeps the input.

use libfuzzer_sys::fuzz_target;
use std::sync::OnceLock;

static PROP: OnceLock<String> = OnceLock::new();

fuzz_target!(|data: &[u8]| {
    let id = PROP.get_or_init(|| {
        vcheck_lib::engine::install_quiet_panic_hook();
        std::env::var("VFUZZ_PROP").expect("VFUZZ_PROP=<C01..C18>")
    });
    if let Some((case_json, reason)) = vcheck_lib::props::fuzz(id, data) {
        eprintln!("{} ORACLE FAILURE: {}", id, reason);
        if let Ok(dir) = std::env::var("VFUZZ_OUT") {
            let name = format!("{}/fuzz-{}-{:016x}.json", dir, id, fxhash(data));
            let _ = std::fs::write(name, case_json);
        }
        std::process::abort();
    }
});

fn fxhash(b: &[u8]) -> u64 {
    let mut h: u64 = 0xcbf29ce484222325;
    for x in b {
        h ^= *x as u64;
        h = h.wrapping_mul(0x100000001b3);
    }
    h
}
