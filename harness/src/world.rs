//! World builders and observation helpers shared by the property modules.

use crate::oracle::{keccak256, Sv};
use axelar_gas_service::{AxelarGasService, AxelarGasServiceClient};
use axelar_gateway::types::{Message, Proof, ProofSignature, ProofSigner, WeightedSigner, WeightedSigners};
use axelar_gateway::{AxelarGateway, AxelarGatewayClient};
use ed25519_dalek::{Signer, SigningKey};
use interchain_token::{InterchainToken, InterchainTokenClient};
use interchain_token_service::{InterchainTokenService, InterchainTokenServiceClient};
use serde::{Deserialize, Serialize};
use sha2::{Digest, Sha256};
use soroban_sdk::testutils::{Address as _, EnvTestConfig, Ledger as _};
use soroban_sdk::xdr::{self, ScAddress, ScVal};
use soroban_sdk::{Address, Bytes, BytesN, Env, IntoVal, String as SString, TryFromVal, Val, Vec as SVec};

// ---------------------------------------------------------------------------------------------
// serde helpers for 128-bit numbers (serde_json::Value cannot hold them)

pub mod u128s {
    use serde::{Deserialize, Deserializer, Serializer};
    pub fn serialize<S: Serializer>(v: &u128, s: S) -> Result<S::Ok, S::Error> {
        s.serialize_str(&v.to_string())
    }
    pub fn deserialize<'de, D: Deserializer<'de>>(d: D) -> Result<u128, D::Error> {
        let s = String::deserialize(d)?;
        s.parse().map_err(serde::de::Error::custom)
    }
}
pub mod i128s {
    use serde::{Deserialize, Deserializer, Serializer};
    pub fn serialize<S: Serializer>(v: &i128, s: S) -> Result<S::Ok, S::Error> {
        s.serialize_str(&v.to_string())
    }
    pub fn deserialize<'de, D: Deserializer<'de>>(d: D) -> Result<i128, D::Error> {
        let s = String::deserialize(d)?;
        s.parse().map_err(serde::de::Error::custom)
    }
}
pub mod vu128s {
    use serde::{Deserialize, Deserializer, Serializer};
    pub fn serialize<S: Serializer>(v: &Vec<u128>, s: S) -> Result<S::Ok, S::Error> {
        s.collect_seq(v.iter().map(|x| x.to_string()))
    }
    pub fn deserialize<'de, D: Deserializer<'de>>(d: D) -> Result<Vec<u128>, D::Error> {
        let v = Vec::<String>::deserialize(d)?;
        v.into_iter().map(|s| s.parse().map_err(serde::de::Error::custom)).collect()
    }
}

// ---------------------------------------------------------------------------------------------
// environment / observation

/// Test Env: unlimited budget; persistent / instance entries outlive any ledger jump a history makes
/// (archival + restoration of persistent entries is a network mechanism outside the properties; a
/// *temporary* entry, by contrast, is gone for good when its TTL ends, and keeps the default minimum of 16).
pub fn new_env() -> Env {
    let env = Env::new_with_config(EnvTestConfig { capture_snapshot_at_drop: false });
    env.ledger().with_mut(|li| {
        li.min_persistent_entry_ttl = 6_000_000;
        li.max_entry_ttl = 6_312_000;
        // a ledger position like a live network's, not the test host's zero: code that compares or divides
        // sequence numbers and timestamps behaves differently at 0 (several seeded changes were invisible there)
        li.sequence_number = 51_234_567;
        li.timestamp = 1_750_000_000;
    });
    #[allow(deprecated)]
    env.budget().reset_unlimited();
    env
}

/// Env in which persistent / instance entries outlive any ledger jump a history makes
/// (archival + restoration of persistent entries is a network mechanism outside the properties;
/// a *temporary* entry, by contrast, is gone for good when its TTL ends).
pub fn new_env_longlived() -> Env {
    new_env()
}

pub fn advance_ledgers(env: &Env, n: u32) {
    let seq = env.ledger().sequence();
    let ts = env.ledger().timestamp();
    env.ledger().set_sequence_number(seq.saturating_add(n));
    env.ledger().set_timestamp(ts.saturating_add(5 * n as u64));
}

pub type Snap = std::vec::Vec<(xdr::LedgerKey, xdr::LedgerEntry, Option<u32>)>;

pub fn snapshot(env: &Env) -> Snap {
    let s = env.to_ledger_snapshot();
    s.ledger_entries.into_iter().map(|(k, (e, t))| (*k, *e, t)).collect()
}

/// Ledger entries owned by one contract (instance + contract data of that contract).
pub fn snapshot_of(env: &Env, contract: &Address) -> Snap {
    let sc: ScAddress = ScAddress::try_from(contract).unwrap();
    snapshot(env)
        .into_iter()
        .filter(|(k, _, _)| match k {
            xdr::LedgerKey::ContractData(d) => d.contract == sc,
            _ => false,
        })
        .collect()
}

pub type Ev = (Address, std::vec::Vec<ScVal>, ScVal);

/// Contract events of successful (not rolled back) frames, in emission order.
fn live_events(env: &Env) -> std::vec::Vec<(xdr::Hash, xdr::VecM<ScVal>, ScVal)> {
    env.host()
        .get_events()
        .unwrap()
        .0
        .into_iter()
        .filter(|e| !e.failed_call)
        .filter_map(|e| match e.event {
            xdr::ContractEvent {
                type_: xdr::ContractEventType::Contract,
                contract_id: Some(contract_id),
                body: xdr::ContractEventBody::V0(xdr::ContractEventV0 { topics, data }),
                ..
            } => Some((contract_id, topics, data)),
            _ => None,
        })
        .collect()
}

pub fn events_len(env: &Env) -> u32 {
    live_events(env).len() as u32
}

pub fn events_since(env: &Env, n: u32) -> std::vec::Vec<Ev> {
    live_events(env)
        .into_iter()
        .skip(n as usize)
        .map(|(c, t, d)| (Address::try_from_val(env, &ScAddress::Contract(c)).unwrap(), t.to_vec(), d))
        .collect()
}

pub fn scv<T: IntoVal<Env, Val>>(env: &Env, v: T) -> ScVal {
    let val: Val = v.into_val(env);
    ScVal::try_from_val(env, &val).unwrap()
}

pub fn sym(s: &str) -> ScVal {
    ScVal::Symbol(xdr::ScSymbol(s.try_into().unwrap()))
}

pub fn addr_sv(a: &Address) -> Sv {
    match ScAddress::try_from(a).unwrap() {
        ScAddress::Account(xdr::AccountId(xdr::PublicKey::PublicKeyTypeEd25519(xdr::Uint256(k)))) => Sv::Account(k),
        ScAddress::Contract(xdr::Hash(h)) => Sv::Contract(h),
    }
}

/// The address of the *other kind* (account <-> contract) that carries the same 32 bytes.
pub fn kind_twin(env: &Env, a: &Address) -> Address {
    let sc = match ScAddress::try_from(a).unwrap() {
        ScAddress::Contract(xdr::Hash(h)) => ScAddress::Account(xdr::AccountId(xdr::PublicKey::PublicKeyTypeEd25519(xdr::Uint256(h)))),
        ScAddress::Account(xdr::AccountId(xdr::PublicKey::PublicKeyTypeEd25519(xdr::Uint256(k)))) => ScAddress::Contract(xdr::Hash(k)),
    };
    Address::try_from_val(env, &sc).unwrap()
}

/// The owner replaces the contract's code (with the executable the test host gives natively registered
/// contracts, so the current source keeps running) and completes the migration. Configuration and state are
/// not the migration's business: everything a history has built up must still be there afterwards.
/// What a history knows and an owner could name in migration data.
#[derive(Clone, Debug, Default)]
pub struct MigHints {
    /// related names, e.g. (source chain, message id) of the messages of the history
    pub pairs: std::vec::Vec<(std::string::String, std::string::String)>,
    pub strings: std::vec::Vec<std::string::String>,
    pub addresses: std::vec::Vec<Address>,
}

/// A value of the (source-level) type `ty` built from the hints: collections list everything the hints know.
pub fn hinted_value(env: &Env, ty: &str, h: &MigHints) -> Option<Val> {
    let strings: std::vec::Vec<std::string::String> = if h.strings.is_empty() { h.pairs.iter().flat_map(|(a, b)| [a.clone(), b.clone()]).collect() } else { h.strings.clone() };
    Some(match ty {
        "()" => Val::VOID.into(),
        "String" => sstr(env, strings.first().map(|s| s.as_str()).unwrap_or("x")).into_val(env),
        "Address" => h.addresses.first().cloned().unwrap_or_else(|| Address::generate(env)).into_val(env),
        "bool" => true.into_val(env),
        "u32" => 1u32.into_val(env),
        "u64" => 1u64.into_val(env),
        "u128" => 1u128.into_val(env),
        "i128" => 1i128.into_val(env),
        "Bytes" => Bytes::new(env).into_val(env),
        "BytesN<32>" => BytesN::from_array(env, &[0u8; 32]).into_val(env),
        _ => {
            if let Some(inner) = ty.strip_prefix("Vec<").and_then(|t| t.strip_suffix('>')) {
                let mut v: SVec<Val> = SVec::new(env);
                match inner {
                    "(String,String)" => {
                        for (a, b) in &h.pairs {
                            let t: SVec<Val> = SVec::from_array(env, [sstr(env, a).into_val(env), sstr(env, b).into_val(env)]);
                            v.push_back(t.into_val(env));
                        }
                    }
                    "String" => strings.iter().for_each(|s| v.push_back(sstr(env, s).into_val(env))),
                    "Address" => h.addresses.iter().for_each(|a| v.push_back(a.into_val(env))),
                    _ => {
                        if let Some(x) = hinted_value(env, inner, h) {
                            v.push_back(x);
                        }
                    }
                }
                v.into_val(env)
            } else if let Some(inner) = ty.strip_prefix("Option<").and_then(|t| t.strip_suffix('>')) {
                hinted_value(env, inner, h)?
            } else if let Some(parts) = crate::sweep::tuple_parts(ty) {
                if parts == ["String", "String"] && !h.pairs.is_empty() {
                    let (a, b) = &h.pairs[0];
                    let t: SVec<Val> = SVec::from_array(env, [sstr(env, a).into_val(env), sstr(env, b).into_val(env)]);
                    t.into_val(env)
                } else {
                    let mut v: SVec<Val> = SVec::new(env);
                    for p in parts {
                        v.push_back(hinted_value(env, p, h)?);
                    }
                    v.into_val(env)
                }
            } else {
                return None;
            }
        }
    })
}

/// The migration data lists a caller can try, most conventional first: `()` (what every shipped contract takes at
/// the pinned commit), then one value per migration data type the tree under test declares in its sources
/// (`#[migratable(with_type = T)]`), built from the hints.
pub fn migration_candidates(env: &Env, h: &MigHints) -> std::vec::Vec<SVec<Val>> {
    let mut out = vec![SVec::from_array(env, [Val::VOID.into()])];
    for t in crate::sweep::migration_types() {
        if let Some(v) = hinted_value(env, t, h) {
            out.push(SVec::from_array(env, [v]));
        }
    }
    out
}

/// `migrate` with the first data the contract accepts (needs the authorisations already arranged by the caller)
pub fn migrate_dyn(env: &Env, contract: &Address, h: &MigHints) -> Result<(), String> {
    let mut last = std::string::String::new();
    for args in migration_candidates(env, h) {
        let r = env.try_invoke_contract::<Val, soroban_sdk::Error>(contract, &soroban_sdk::Symbol::new(env, "migrate"), args);
        if matches!(r, Ok(Ok(_))) {
            return Ok(());
        }
        if last.is_empty() {
            last = format!("{:?}", r);
        }
    }
    Err(last)
}

/// one `migrate` call with data of the type the contract's sources declare (for callers that arranged exact authorisations,
/// which a refused first attempt would use up)
pub fn migrate_typed(env: &Env, contract: &Address, contract_dir: &str, h: &MigHints) -> Result<(), String> {
    let v = hinted_value(env, &crate::sweep::migration_type(contract_dir), h).unwrap_or_else(|| Val::VOID.into());
    let r = env.try_invoke_contract::<Val, soroban_sdk::Error>(contract, &soroban_sdk::Symbol::new(env, "migrate"), SVec::from_array(env, [v]));
    if matches!(r, Ok(Ok(_))) {
        Ok(())
    } else {
        Err(format!("{:?}", r))
    }
}

pub fn upgrade_and_migrate(env: &Env, contract: &Address) -> Result<(), String> {
    upgrade_and_migrate_with(env, contract, &MigHints::default())
}

pub fn upgrade_and_migrate_with(env: &Env, contract: &Address, hints: &MigHints) -> Result<(), String> {
    env.mock_all_auths();
    let h = BytesN::from_array(env, &empty_wasm_hash());
    let r1 = env.try_invoke_contract::<(), soroban_sdk::Error>(contract, &soroban_sdk::Symbol::new(env, "upgrade"), (h,).into_val(env));
    if !matches!(r1, Ok(Ok(()))) {
        return Err(format!("owner's upgrade refused: {:?}", r1));
    }
    if let Err(e) = migrate_dyn(env, contract, hints) {
        return Err(format!("owner's migration refused: {}", e));
    }
    env.set_auths(&[]);
    Ok(())
}

/// Opaque application data of `len` bytes whose *content* varies with `seed`: pseudo-random, all zero, all 0xff, a
/// zero word prefix (the shape of ABI-encoded small integers and offsets), or a 4-byte zero "version" prefix.
pub fn shaped_bytes(seed: u64, len: usize) -> std::vec::Vec<u8> {
    let mut b = seeded_bytes(seed, len);
    match seed % 6 {
        1 => b.iter_mut().for_each(|x| *x = 0),
        2 => b.iter_mut().for_each(|x| *x = 0xff),
        3 => b.iter_mut().take(32).for_each(|x| *x = 0),
        4 => b.iter_mut().take(4).for_each(|x| *x = 0),
        _ => {}
    }
    b
}

/// account-kind (G...) addresses cannot be given a mock account contract by `mock_auths`
pub fn is_account_kind(a: &Address) -> bool {
    matches!(ScAddress::try_from(a).unwrap(), ScAddress::Account(_))
}

pub fn sstr(env: &Env, s: &str) -> SString {
    SString::from_str(env, s)
}

pub fn sstr_bytes(env: &Env, b: &[u8]) -> SString {
    SString::from_bytes(env, b)
}

pub fn sstring_to_vec(s: &SString) -> std::vec::Vec<u8> {
    let mut v = vec![0u8; s.len() as usize];
    s.copy_into_slice(&mut v);
    v
}

pub fn bytes_to_vec(b: &Bytes) -> std::vec::Vec<u8> {
    b.to_alloc_vec()
}

pub fn bn32(env: &Env, b: &[u8; 32]) -> BytesN<32> {
    BytesN::from_array(env, b)
}

pub fn h32(tag: &str, n: u64) -> [u8; 32] {
    let mut h = Sha256::new();
    h.update(tag.as_bytes());
    h.update(n.to_be_bytes());
    h.finalize().into()
}

pub fn advance_time(env: &Env, dt: u64) {
    let t = env.ledger().timestamp();
    env.ledger().set_timestamp(t.saturating_add(dt));
}

// ---------------------------------------------------------------------------------------------
// signer sets (pure data) and proofs

#[derive(Clone, Debug, Serialize, Deserialize, PartialEq, Eq)]
pub struct SetSpec {
    /// key seeds; duplicates are dropped when building, so a spec always yields distinct keys
    pub seeds: std::vec::Vec<u16>,
    #[serde(with = "vu128s")]
    pub weights: std::vec::Vec<u128>,
    #[serde(with = "u128s")]
    pub threshold: u128,
    pub nonce: u8,
}

#[derive(Clone)]
pub struct BuiltSet {
    pub sks: std::vec::Vec<SigningKey>,
    pub pks: std::vec::Vec<[u8; 32]>,
    pub weights: std::vec::Vec<u128>,
    pub threshold: u128,
    pub nonce: [u8; 32],
    /// an extra element of the signers vector that is not a signer at all, (kind, position): kind % 4 = 0 a struct
    /// {signer: 32 zero bytes, weight: a 64-bit zero}, 1 void, 2 a 32-bit number, 3 a struct whose key has 31 bytes.
    /// Typed vectors are decoded element by element, so such a value can be passed where a signer set is expected.
    pub junk: Option<(u8, u8)>,
}

pub fn signing_key(seed: u16) -> SigningKey {
    SigningKey::from_bytes(&h32("signer-key", seed as u64))
}

impl SetSpec {
    pub fn build(&self) -> BuiltSet {
        let mut seen = std::collections::BTreeSet::new();
        let mut pairs: std::vec::Vec<(SigningKey, [u8; 32], u128)> = vec![];
        for (i, s) in self.seeds.iter().enumerate() {
            if !seen.insert(*s) {
                continue;
            }
            let sk = signing_key(*s);
            let pk = sk.verifying_key().to_bytes();
            let w = self.weights.get(i).copied().unwrap_or(1);
            pairs.push((sk, pk, w));
        }
        pairs.sort_by(|a, b| a.1.cmp(&b.1));
        BuiltSet {
            pks: pairs.iter().map(|p| p.1).collect(),
            weights: pairs.iter().map(|p| p.2).collect(),
            sks: pairs.into_iter().map(|p| p.0).collect(),
            threshold: self.threshold,
            nonce: [self.nonce; 32],
            junk: None,
        }
    }
}

impl BuiltSet {
    pub fn len(&self) -> usize {
        self.pks.len()
    }
    pub fn total_weight(&self) -> Option<u128> {
        self.weights.iter().try_fold(0u128, |a, w| a.checked_add(*w))
    }
    /// statement's well-formedness: non-empty, strictly increasing keys, non-zero weights,
    /// non-zero threshold not exceeding the overflow-free total
    pub fn well_formed(&self) -> bool {
        if self.pks.is_empty() || self.junk.is_some() {
            return false;
        }
        if self.pks.windows(2).any(|w| w[0] >= w[1]) {
            return false;
        }
        if self.weights.iter().any(|w| *w == 0) {
            return false;
        }
        match self.total_weight() {
            None => false,
            Some(t) => self.threshold != 0 && self.threshold <= t,
        }
    }
    pub fn to_soroban(&self, env: &Env) -> WeightedSigners {
        let mut v = SVec::new(env);
        for (pk, w) in self.pks.iter().zip(self.weights.iter()) {
            v.push_back(WeightedSigner { signer: BytesN::from_array(env, pk), weight: *w });
        }
        if let Some((kind, pos)) = self.junk {
            use soroban_sdk::{IntoVal, Map, Symbol, TryFromVal, Val};
            let mut raw: SVec<Val> = SVec::new(env);
            for e in v.iter() {
                raw.push_back(e.into_val(env));
            }
            let junk: Val = match kind % 4 {
                0 => {
                    let mut m: Map<Symbol, Val> = Map::new(env);
                    m.set(Symbol::new(env, "signer"), BytesN::from_array(env, &[0u8; 32]).into_val(env));
                    m.set(Symbol::new(env, "weight"), 0u64.into_val(env));
                    m.into_val(env)
                }
                1 => ().into_val(env),
                2 => 7u32.into_val(env),
                _ => {
                    let mut m: Map<Symbol, Val> = Map::new(env);
                    m.set(Symbol::new(env, "signer"), soroban_sdk::Bytes::from_slice(env, &[9u8; 31]).into_val(env));
                    m.set(Symbol::new(env, "weight"), 1u128.into_val(env));
                    m.into_val(env)
                }
            };
            raw.insert(pos as u32 % (raw.len() + 1), junk);
            v = SVec::<WeightedSigner>::try_from_val(env, &raw.to_val()).unwrap();
        }
        WeightedSigners { signers: v, threshold: self.threshold, nonce: BytesN::from_array(env, &self.nonce) }
    }
    pub fn sv(&self) -> Sv {
        Sv::Map(vec![
            ("nonce".into(), Sv::Bytes(self.nonce.to_vec())),
            (
                "signers".into(),
                Sv::Vec({
                    let mut items: Vec<Sv> = self
                        .pks
                        .iter()
                        .zip(self.weights.iter())
                        .map(|(pk, w)| Sv::Map(vec![("signer".into(), Sv::Bytes(pk.to_vec())), ("weight".into(), Sv::U128(*w))]))
                        .collect();
                    if let Some((kind, pos)) = self.junk {
                        let junk = match kind % 4 {
                            0 => Sv::Map(vec![("signer".into(), Sv::Bytes(vec![0u8; 32])), ("weight".into(), Sv::U64(0))]),
                            1 => Sv::Void,
                            2 => Sv::U32(7),
                            _ => Sv::Map(vec![("signer".into(), Sv::Bytes(vec![9u8; 31])), ("weight".into(), Sv::U128(1))]),
                        };
                        let at = pos as usize % (items.len() + 1);
                        items.insert(at, junk);
                    }
                    items
                }),
            ),
            ("threshold".into(), Sv::U128(self.threshold)),
        ])
    }
    /// independent signer-set hash: keccak(XDR(set))
    pub fn hash(&self) -> [u8; 32] {
        keccak256(&self.sv().xdr())
    }
    /// independent rotation data hash: keccak(XDR((RotateSigners, set)))
    pub fn rotation_data_hash(&self) -> [u8; 32] {
        keccak256(&Sv::Vec(vec![Sv::Vec(vec![Sv::sym("RotateSigners")]), self.sv()]).xdr())
    }
    /// honest proof: the signers selected by `mask` sign `digest`
    pub fn proof(&self, env: &Env, digest: &[u8; 32], mask: u32) -> Proof {
        let mut v = SVec::new(env);
        for i in 0..self.len() {
            let signature = if mask >> i & 1 == 1 {
                let sig = self.sks[i].sign(digest).to_bytes();
                ProofSignature::Signed(BytesN::from_array(env, &sig))
            } else {
                ProofSignature::Unsigned
            };
            v.push_back(ProofSigner {
                signer: WeightedSigner { signer: BytesN::from_array(env, &self.pks[i]), weight: self.weights[i] },
                signature,
            });
        }
        Proof { signers: v, threshold: self.threshold, nonce: BytesN::from_array(env, &self.nonce) }
    }
    pub fn full_mask(&self) -> u32 {
        if self.len() >= 32 {
            u32::MAX
        } else {
            (1u32 << self.len()) - 1
        }
    }
    pub fn mask_weight(&self, mask: u32) -> Option<u128> {
        let mut t = 0u128;
        for i in 0..self.len() {
            if mask >> i & 1 == 1 {
                t = t.checked_add(self.weights[i])?;
            }
        }
        Some(t)
    }
}

/// independent digest: keccak(domain || signers_hash || data_hash)
pub fn digest(domain: &[u8; 32], signers_hash: &[u8; 32], data_hash: &[u8; 32]) -> [u8; 32] {
    let mut m = std::vec::Vec::with_capacity(96);
    m.extend_from_slice(domain);
    m.extend_from_slice(signers_hash);
    m.extend_from_slice(data_hash);
    keccak256(&m)
}

// ---------------------------------------------------------------------------------------------
// gateway messages (pure data)

#[derive(Clone, Debug, Serialize, Deserialize, PartialEq, Eq, Hash, PartialOrd, Ord)]
pub struct MsgSpec {
    pub chain: String,
    pub id: String,
    pub src: String,
    /// index into the world's destination pool
    pub dest: u8,
    /// payload-hash index (h32("ph", n)) unless overridden by the property
    pub ph: u8,
}

pub fn msg_sv(chain: &[u8], id: &[u8], src: &[u8], dest: &Sv, payload_hash: &[u8; 32]) -> Sv {
    Sv::Map(vec![
        ("contract_address".into(), dest.clone()),
        ("message_id".into(), Sv::Str(id.to_vec())),
        ("payload_hash".into(), Sv::Bytes(payload_hash.to_vec())),
        ("source_address".into(), Sv::Str(src.to_vec())),
        ("source_chain".into(), Sv::Str(chain.to_vec())),
    ])
}

pub fn approve_data_hash(msgs: &[Sv]) -> [u8; 32] {
    keccak256(&Sv::Vec(vec![Sv::Vec(vec![Sv::sym("ApproveMessages")]), Sv::Vec(msgs.to_vec())]).xdr())
}

pub fn message_sv(env: &Env, m: &Message) -> Sv {
    let _ = env;
    msg_sv(
        &sstring_to_vec(&m.source_chain),
        &sstring_to_vec(&m.message_id),
        &sstring_to_vec(&m.source_address),
        &addr_sv(&m.contract_address),
        &m.payload_hash.to_array(),
    )
}

// ---------------------------------------------------------------------------------------------
// gateway world

pub struct Gw<'a> {
    pub client: AxelarGatewayClient<'a>,
    pub id: Address,
    pub owner: Address,
    pub operator: Address,
    pub domain: [u8; 32],
}

pub fn deploy_gateway<'a>(
    env: &Env,
    domain: [u8; 32],
    min_delay: u64,
    retention: u64,
    initial: &[BuiltSet],
) -> Result<Gw<'a>, String> {
    let owner = Address::generate(env);
    let operator = Address::generate(env);
    let mut sets = SVec::new(env);
    for s in initial {
        sets.push_back(s.to_soroban(env));
    }
    let dom = BytesN::from_array(env, &domain);
    let args = (owner.clone(), operator.clone(), dom, min_delay, retention, sets);
    let id = crate::engine::catch(|| env.register(AxelarGateway, args))?;
    Ok(Gw { client: AxelarGatewayClient::new(env, &id), id, owner, operator, domain })
}

impl<'a> Gw<'a> {
    /// honest approval of `msgs` by `set` (all signers sign)
    pub fn approve(&self, env: &Env, set: &BuiltSet, msgs: &[Message]) -> Result<(), String> {
        let svs: std::vec::Vec<Sv> = msgs.iter().map(|m| message_sv(env, m)).collect();
        let dh = approve_data_hash(&svs);
        let dg = digest(&self.domain, &set.hash(), &dh);
        let proof = set.proof(env, &dg, set.full_mask());
        let mut v = SVec::new(env);
        for m in msgs {
            v.push_back(m.clone());
        }
        match self.client.try_approve_messages(&v, &proof) {
            Ok(Ok(())) => Ok(()),
            other => Err(format!("honest approval refused: {:?}", other)),
        }
    }
}

/// A 1-of-1 signer set used where the proof space is not under study.
pub fn simple_set(tag: u16) -> BuiltSet {
    SetSpec { seeds: vec![tag], weights: vec![1], threshold: 1, nonce: 0 }.build()
}

// ---------------------------------------------------------------------------------------------
// gas service, tokens, ITS

pub struct Gas<'a> {
    pub client: AxelarGasServiceClient<'a>,
    pub id: Address,
    pub owner: Address,
    pub collector: Address,
}

pub fn deploy_gas<'a>(env: &Env) -> Gas<'a> {
    deploy_gas_cfg(env, false)
}

/// `single_key`: the owner and the gas collector are the same address
pub fn deploy_gas_cfg<'a>(env: &Env, single_key: bool) -> Gas<'a> {
    let owner = Address::generate(env);
    let collector = if single_key { owner.clone() } else { Address::generate(env) };
    let id = env.register(AxelarGasService, (&owner, &collector));
    Gas { client: AxelarGasServiceClient::new(env, &id), id, owner, collector }
}

/// sha256 of the empty byte string: the executable hash the test host gives natively
/// registered contracts.
pub fn empty_wasm_hash() -> [u8; 32] {
    Sha256::digest([]).into()
}

pub struct Its<'a> {
    pub client: InterchainTokenServiceClient<'a>,
    pub id: Address,
    pub owner: Address,
    pub hub_address: String,
    pub chain_name: String,
}

pub fn deploy_its<'a>(env: &Env, gateway: &Address, gas: &Address, hub_address: &str, chain_name: &str) -> Its<'a> {
    let owner = Address::generate(env);
    let id = env.register(
        InterchainTokenService,
        (
            &owner,
            gateway,
            gas,
            sstr(env, hub_address),
            sstr(env, chain_name),
            BytesN::from_array(env, &empty_wasm_hash()),
        ),
    );
    Its {
        client: InterchainTokenServiceClient::new(env, &id),
        id,
        owner,
        hub_address: hub_address.to_string(),
        chain_name: chain_name.to_string(),
    }
}

/// Native-token injection (DESIGN §1.4): make the address ITS will deploy `token_id` at run the
/// current-source `InterchainToken` natively. Registers the contract at the predicted address
/// (which runs a throw-away constructor), then deletes the instance entry again so that ITS's own
/// `deploy_v2` creates the instance and runs the current-source constructor with ITS's arguments.
pub fn inject_native_token(env: &Env, its: &Address, token_id: &[u8; 32]) -> Address {
    let predicted = env.deployer().with_address(its.clone(), BytesN::from_array(env, token_id)).deployed_address();
    if has_instance(env, &predicted) {
        return predicted; // already deployed (collision case): leave as is
    }
    let dummy_owner = its.clone();
    let md = soroban_token_sdk::metadata::TokenMetadata { decimal: 0, name: sstr(env, "x"), symbol: sstr(env, "x") };
    env.register_at(&predicted, InterchainToken, (dummy_owner, None::<Address>, BytesN::from_array(env, token_id), md));
    delete_instance(env, &predicted);
    predicted
}

fn instance_key(a: &Address) -> std::rc::Rc<xdr::LedgerKey> {
    std::rc::Rc::new(xdr::LedgerKey::ContractData(xdr::LedgerKeyContractData {
        contract: ScAddress::try_from(a).unwrap(),
        key: ScVal::LedgerKeyContractInstance,
        durability: xdr::ContractDataDurability::Persistent,
    }))
}

pub fn has_instance(env: &Env, a: &Address) -> bool {
    let key = instance_key(a);
    let host = env.host();
    let budget = host.budget_cloned();
    host.with_mut_storage(|s| s.has(&key, &budget)).unwrap_or(false)
}

pub fn delete_instance(env: &Env, a: &Address) {
    let key = instance_key(a);
    let host = env.host();
    let budget = host.budget_cloned();
    host.with_mut_storage(|s| s.del(&key, &budget)).unwrap();
}

pub fn token_client<'a>(env: &Env, a: &Address) -> InterchainTokenClient<'a> {
    InterchainTokenClient::new(env, a)
}

pub fn register_native_token<'a>(
    env: &Env,
    owner: &Address,
    minter: Option<Address>,
    token_id: [u8; 32],
    name: &str,
    symbol: &str,
    decimals: u32,
) -> InterchainTokenClient<'a> {
    let md = soroban_token_sdk::metadata::TokenMetadata { decimal: decimals, name: sstr(env, name), symbol: sstr(env, symbol) };
    let id = env.register(InterchainToken, (owner.clone(), minter, BytesN::from_array(env, &token_id), md));
    InterchainTokenClient::new(env, &id)
}

// ---------------------------------------------------------------------------------------------
// explicit proofs (pure data), so that declared sets and signatures can be tampered with

#[derive(Clone, Debug)]
pub struct ProofData {
    pub entries: std::vec::Vec<([u8; 32], u128, Option<[u8; 64]>)>,
    pub threshold: u128,
    pub nonce: [u8; 32],
}

impl ProofData {
    pub fn honest(set: &BuiltSet, digest: &[u8; 32], mask: u32) -> ProofData {
        ProofData {
            entries: (0..set.len())
                .map(|i| {
                    let sig = if mask >> i & 1 == 1 { Some(set.sks[i].sign(digest).to_bytes()) } else { None };
                    (set.pks[i], set.weights[i], sig)
                })
                .collect(),
            threshold: set.threshold,
            nonce: set.nonce,
        }
    }
    pub fn declared_set_sv(&self) -> Sv {
        Sv::Map(vec![
            ("nonce".into(), Sv::Bytes(self.nonce.to_vec())),
            (
                "signers".into(),
                Sv::Vec(
                    self.entries
                        .iter()
                        .map(|(pk, w, _)| Sv::Map(vec![("signer".into(), Sv::Bytes(pk.to_vec())), ("weight".into(), Sv::U128(*w))]))
                        .collect(),
                ),
            ),
            ("threshold".into(), Sv::U128(self.threshold)),
        ])
    }
    pub fn declared_hash(&self) -> [u8; 32] {
        keccak256(&self.declared_set_sv().xdr())
    }
    pub fn to_soroban(&self, env: &Env) -> Proof {
        let mut v = SVec::new(env);
        for (pk, w, sig) in &self.entries {
            v.push_back(ProofSigner {
                signer: WeightedSigner { signer: BytesN::from_array(env, pk), weight: *w },
                signature: match sig {
                    Some(s) => ProofSignature::Signed(BytesN::from_array(env, s)),
                    None => ProofSignature::Unsigned,
                },
            });
        }
        Proof { signers: v, threshold: self.threshold, nonce: BytesN::from_array(env, &self.nonce) }
    }
    /// (weight carried by valid signatures over `digest`, number of attached-but-invalid signatures)
    pub fn valid_weight(&self, digest: &[u8; 32]) -> (Option<u128>, usize) {
        use ed25519_dalek::{Signature, VerifyingKey};
        let mut total: Option<u128> = Some(0);
        let mut invalid = 0;
        for (pk, w, sig) in &self.entries {
            if let Some(s) = sig {
                let ok = VerifyingKey::from_bytes(pk)
                    .ok()
                    .map(|vk| vk.verify_strict(digest, &Signature::from_bytes(s)).is_ok())
                    .unwrap_or(false);
                if ok {
                    total = total.and_then(|t| t.checked_add(*w));
                } else {
                    invalid += 1;
                }
            }
        }
        (total, invalid)
    }
}

/// Reference model of the gateway's signer-set bookkeeping.
#[derive(Clone, Debug, Default)]
pub struct SignerModel {
    pub epoch: u64,
    /// hash -> epoch
    pub by_hash: std::collections::BTreeMap<[u8; 32], u64>,
    pub retention: u64,
}

impl SignerModel {
    pub fn install(&mut self, h: [u8; 32]) {
        self.epoch += 1;
        self.by_hash.insert(h, self.epoch);
    }
    pub fn live(&self, h: &[u8; 32]) -> bool {
        match self.by_hash.get(h) {
            Some(e) => self.epoch - e <= self.retention,
            None => false,
        }
    }
    pub fn is_latest(&self, h: &[u8; 32]) -> bool {
        self.by_hash.get(h).map(|e| *e == self.epoch).unwrap_or(false)
    }
}

impl<'a> Gw<'a> {
    /// rotation through the real entry point; proof by `prover` (signers in `mask`) over the new set
    pub fn rotate(&self, env: &Env, new_set: &BuiltSet, prover: &BuiltSet, mask: u32, bypass: bool) -> bool {
        let dh = new_set.rotation_data_hash();
        let dg = digest(&self.domain, &prover.hash(), &dh);
        let proof = prover.proof(env, &dg, mask);
        matches!(self.client.try_rotate_signers(&new_set.to_soroban(env), &proof, &bypass), Ok(Ok(())))
    }
}

// ---------------------------------------------------------------------------------------------
// generic native injection + deployment through the host's real create-contract path

/// Give `addr` the native function table of contract type `T` without creating an instance:
/// `register_at` with no constructor arguments inserts the function table, stores a bare instance
/// and then fails in the constructor call (argument count); the bare instance is deleted again.
/// A later `deploy_v2(empty-wasm hash, args)` at that address then runs T's current-source
/// constructor inside a real, atomic host frame.
pub fn inject_native<T: soroban_sdk::testutils::ContractFunctionSet + 'static>(env: &Env, addr: &Address, contract: T) {
    if has_instance(env, addr) {
        return;
    }
    let _ = crate::engine::catch(|| env.register_at(addr, contract, ()));
    if has_instance(env, addr) {
        delete_instance(env, addr);
    }
}

pub struct FactoryW<'a> {
    pub client: crate::probes::FactoryClient<'a>,
    pub id: Address,
}

pub fn deploy_factory<'a>(env: &Env) -> FactoryW<'a> {
    let id = env.register(crate::probes::Factory, ());
    FactoryW { client: crate::probes::FactoryClient::new(env, &id), id }
}

impl<'a> FactoryW<'a> {
    pub fn predicted(&self, env: &Env, salt: &[u8; 32]) -> Address {
        env.deployer().with_address(self.id.clone(), BytesN::from_array(env, salt)).deployed_address()
    }
    /// deploy contract type T (native, current source) with `args`; Err = construction failed atomically
    pub fn deploy<T: soroban_sdk::testutils::ContractFunctionSet + 'static>(
        &self,
        env: &Env,
        contract: T,
        salt: &[u8; 32],
        args: SVec<Val>,
    ) -> Result<Address, String> {
        let predicted = self.predicted(env, salt);
        inject_native(env, &predicted, contract);
        match self.client.try_deploy(&BytesN::from_array(env, &empty_wasm_hash()), &BytesN::from_array(env, salt), &args) {
            Ok(Ok(a)) => Ok(a),
            e => Err(format!("{:?}", e)),
        }
    }
}

/// Gateway deployed through the factory (atomic construction).
pub fn deploy_gateway_atomic<'a>(
    env: &Env,
    factory: &FactoryW,
    salt: &[u8; 32],
    domain: [u8; 32],
    min_delay: u64,
    retention: u64,
    initial: &[BuiltSet],
) -> Result<Gw<'a>, String> {
    let owner = Address::generate(env);
    let operator = Address::generate(env);
    let mut sets = SVec::new(env);
    for s in initial {
        sets.push_back(s.to_soroban(env));
    }
    let dom = BytesN::from_array(env, &domain);
    let args: SVec<Val> = (owner.clone(), operator.clone(), dom, min_delay, retention, sets).into_val(env);
    let id = factory.deploy(env, AxelarGateway, salt, args)?;
    Ok(Gw { client: AxelarGatewayClient::new(env, &id), id, owner, operator, domain })
}

/// deterministic pseudo-random bytes derived from a case-supplied seed (not an RNG of our own:
/// the seed is part of the generated case, so shrinking and replay see the same bytes)
pub fn seeded_bytes(seed: u64, len: usize) -> std::vec::Vec<u8> {
    let mut x = seed ^ 0x9E37_79B9_7F4A_7C15;
    let mut out = std::vec::Vec::with_capacity(len);
    while out.len() < len {
        x ^= x << 13;
        x ^= x >> 7;
        x ^= x << 17;
        if x == 0 {
            x = 0x1234_5678_9abc_def1;
        }
        for b in x.to_le_bytes() {
            if out.len() < len {
                out.push(b);
            }
        }
    }
    out
}

/// entries owned by a contract, without TTLs (state, not rent bookkeeping)
pub fn state_of(env: &Env, contract: &Address) -> std::vec::Vec<(xdr::LedgerKey, xdr::LedgerEntry)> {
    snapshot_of(env, contract).into_iter().map(|(k, e, _)| (k, e)).collect()
}
