//! ITS world: gateway + gas service + ITS (with native-token injection), helpers to deploy /
//! register tokens, approve and deliver hub messages, and independent id derivations.

use crate::oracle::{keccak256, AHub, AMsg, Sv};
use crate::world::*;
use axelar_gateway::types::Message;
use axelar_soroban_std::types::Token;
use interchain_token::InterchainTokenClient;
use soroban_sdk::testutils::Address as _;
use soroban_sdk::token::StellarAssetClient;
use soroban_sdk::xdr::ToXdr;
use soroban_sdk::{Address, Bytes, BytesN, Env};
use soroban_token_sdk::metadata::TokenMetadata;

pub const HUB_CHAIN: &str = "axelar";

pub struct ItsWorld<'a> {
    pub env: Env,
    pub gw: Gw<'a>,
    pub set: BuiltSet,
    pub gas: Gas<'a>,
    pub its: Its<'a>,
    pub users: Vec<Address>,
    /// Stellar asset used to pay gas
    pub gas_asset: Address,
    pub msg_counter: std::cell::Cell<u64>,
}

pub fn build_its_world<'a>(chain_name: &str, hub_address: &str, n_users: usize) -> ItsWorld<'a> {
    build_its_world_retaining(chain_name, hub_address, n_users, 0)
}

/// the same world with a gateway that honours `retention` previous signer sets
pub fn build_its_world_retaining<'a>(chain_name: &str, hub_address: &str, n_users: usize, retention: u64) -> ItsWorld<'a> {
    let env = new_env();
    let set = simple_set(7);
    let gw = deploy_gateway(&env, [0x11; 32], 0, retention, &[set.clone()]).expect("gateway");
    let gas = deploy_gas(&env);
    let its = deploy_its(&env, &gw.id, &gas.id, hub_address, chain_name);
    let users: Vec<Address> = (0..n_users).map(|_| Address::generate(&env)).collect();
    let admin = Address::generate(&env);
    let gas_asset = env.register_stellar_asset_contract_v2(admin).address();
    ItsWorld { env, gw, set, gas, its, users, gas_asset, msg_counter: std::cell::Cell::new(0) }
}

// ---- independent derivations (own Keccak over own XDR)

pub fn zero_address_sv() -> Sv {
    Sv::Account([0u8; 32])
}

pub fn chain_name_hash(chain_name: &str) -> [u8; 32] {
    keccak256(&Sv::str(chain_name).xdr())
}

pub fn oracle_deploy_salt(chain_name: &str, deployer: &Sv, salt: &[u8; 32]) -> [u8; 32] {
    keccak256(
        &Sv::Vec(vec![Sv::str("interchain-token-salt"), Sv::Bytes(chain_name_hash(chain_name).to_vec()), deployer.clone(), Sv::Bytes(salt.to_vec())]).xdr(),
    )
}

pub fn oracle_token_id_from_salt(deploy_salt: &[u8; 32]) -> [u8; 32] {
    keccak256(&Sv::Vec(vec![Sv::str("its-interchain-token-id"), zero_address_sv(), Sv::Bytes(deploy_salt.to_vec())]).xdr())
}

pub fn oracle_token_id(chain_name: &str, deployer: &Sv, salt: &[u8; 32]) -> [u8; 32] {
    oracle_token_id_from_salt(&oracle_deploy_salt(chain_name, deployer, salt))
}

pub fn oracle_canonical_salt(chain_name: &str, token: &Sv) -> [u8; 32] {
    keccak256(&Sv::Vec(vec![Sv::str("canonical-token-salt"), Sv::Bytes(chain_name_hash(chain_name).to_vec()), token.clone()]).xdr())
}

pub fn oracle_canonical_token_id(chain_name: &str, token: &Sv) -> [u8; 32] {
    oracle_token_id_from_salt(&oracle_canonical_salt(chain_name, token))
}

pub fn address_xdr(env: &Env, a: &Address) -> Vec<u8> {
    a.clone().to_xdr(env).to_alloc_vec()
}

impl<'a> ItsWorld<'a> {
    pub fn trust(&self, chain: &str) -> bool {
        self.env.mock_all_auths();
        matches!(self.its.client.try_set_trusted_chain(&sstr(&self.env, chain)), Ok(Ok(())))
    }
    pub fn untrust(&self, chain: &str) -> bool {
        self.env.mock_all_auths();
        matches!(self.its.client.try_remove_trusted_chain(&sstr(&self.env, chain)), Ok(Ok(())))
    }
    pub fn fund_gas(&self, who: &Address, amount: i128) {
        self.env.mock_all_auths();
        StellarAssetClient::new(&self.env, &self.gas_asset).mint(who, &amount);
    }
    pub fn gas_token(&self, amount: i128) -> Token {
        Token { address: self.gas_asset.clone(), amount }
    }
    /// the id the contract itself derives for (deployer, salt)
    pub fn contract_token_id(&self, deployer: &Address, salt: &[u8; 32]) -> [u8; 32] {
        let ds = self.its.client.interchain_token_deploy_salt(deployer, &BytesN::from_array(&self.env, salt));
        let zero = <Address as axelar_soroban_std::address::AddressExt>::zero(&self.env);
        self.its.client.interchain_token_id(&zero, &ds).to_array()
    }
    /// prepare native dispatch of the current-source token at the address ITS will use for `token_id`
    pub fn inject(&self, token_id: &[u8; 32]) -> Address {
        inject_native_token(&self.env, &self.its.id, token_id)
    }
    /// deploy_interchain_token with all auths mocked; Ok((token id, token address))
    pub fn deploy_token(
        &self,
        caller: &Address,
        salt: &[u8; 32],
        name: &[u8],
        symbol: &[u8],
        decimals: u32,
        supply: i128,
        minter: Option<Address>,
    ) -> Result<([u8; 32], Address), String> {
        let id = self.contract_token_id(caller, salt);
        self.inject(&id);
        self.env.mock_all_auths_allowing_non_root_auth();
        let md = TokenMetadata { decimal: decimals, name: sstr_bytes(&self.env, name), symbol: sstr_bytes(&self.env, symbol) };
        match self.its.client.try_deploy_interchain_token(caller, &BytesN::from_array(&self.env, salt), &md, &supply, &minter) {
            Ok(Ok(tid)) => {
                let addr = self.its.client.token_address(&tid);
                Ok((tid.to_array(), addr))
            }
            e => Err(format!("{:?}", e)),
        }
    }
    pub fn token(&self, a: &Address) -> InterchainTokenClient<'a> {
        InterchainTokenClient::new(&self.env, a)
    }
    pub fn new_asset(&self) -> Address {
        let admin = Address::generate(&self.env);
        self.env.register_stellar_asset_contract_v2(admin).address()
    }
    pub fn mint_asset(&self, asset: &Address, to: &Address, amount: i128) {
        self.env.mock_all_auths();
        StellarAssetClient::new(&self.env, asset).mint(to, &amount);
    }
    /// ReceiveFromHub payload (own encoder)
    pub fn receive_payload(origin_chain: &str, inner: &AMsg) -> Vec<u8> {
        AHub::Receive { chain: origin_chain.as_bytes().to_vec(), inner: inner.encode() }.encode()
    }
    pub fn next_message_id(&self) -> String {
        let n = self.msg_counter.get() + 1;
        self.msg_counter.set(n);
        // every third id is as long as two transaction hashes (the gateway's approval key must cope with it)
        if n % 3 == 0 {
            format!("0x{}-{}", "ab".repeat(66), n)
        } else {
            format!("msg-{}", n)
        }
    }
    /// honest gateway approval of a delivery addressed to ITS
    pub fn approve_for_its(&self, source_chain: &str, message_id: &str, source_address: &str, payload: &[u8]) -> Result<(), String> {
        self.approve_for(&self.its.id, source_chain, message_id, source_address, payload)
    }
    pub fn approve_for(&self, dest: &Address, source_chain: &str, message_id: &str, source_address: &str, payload: &[u8]) -> Result<(), String> {
        let m = Message {
            source_chain: sstr(&self.env, source_chain),
            message_id: sstr(&self.env, message_id),
            source_address: sstr(&self.env, source_address),
            contract_address: dest.clone(),
            payload_hash: BytesN::from_array(&self.env, &keccak256(payload)),
        };
        self.gw.approve(&self.env, &self.set, &[m])
    }
    /// deliver to ITS (no authorisation available to anybody)
    pub fn execute(&self, source_chain: &str, message_id: &str, source_address: &str, payload: &[u8]) -> Result<(), String> {
        self.env.set_auths(&[]);
        match self.its.client.try_execute(
            &sstr(&self.env, source_chain),
            &sstr(&self.env, message_id),
            &sstr(&self.env, source_address),
            &Bytes::from_slice(&self.env, payload),
        ) {
            Ok(Ok(())) => Ok(()),
            e => Err(format!("{:?}", e)),
        }
    }
    pub fn is_approved(&self, dest: &Address, source_chain: &str, message_id: &str, source_address: &str, payload: &[u8]) -> bool {
        self.gw.client.is_message_approved(
            &sstr(&self.env, source_chain),
            &sstr(&self.env, message_id),
            &sstr(&self.env, source_address),
            dest,
            &BytesN::from_array(&self.env, &keccak256(payload)),
        )
    }
    pub fn is_executed(&self, source_chain: &str, message_id: &str) -> bool {
        self.gw.client.is_message_executed(&sstr(&self.env, source_chain), &sstr(&self.env, message_id))
    }
}
