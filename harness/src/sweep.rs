//! Entry-point sweep: the operation alphabet is read from the contract sources of the tree under
//! test (every function exported through a `#[contractimpl]` block, including the ones the derive
//! macros generate), so that an entry point a change adds is generated against as well. Each case
//! calls one entry point of one deployed contract with arguments drawn from pools of the world's
//! principals, contracts, tokens, names and amounts, with every `require_auth` satisfied by the
//! host's mock and *recorded*. The oracle is an invariant over what was recorded: a privileged
//! effect (an announcement naming a sender, value leaving the gas service, a role or code change)
//! must be accompanied by the recorded authorisation of the address the property names.
//!
//! The mock lets contract addresses "sign", which no transaction can do; a case in which a
//! contract of the world appears among the recorded signers is discarded (counted).

use crate::engine::Cx;
use crate::itsw::*;
use crate::world::*;
use axelar_operators::{AxelarOperators, AxelarOperatorsClient};
use axelar_soroban_std::types::Token;
use interchain_token::InterchainTokenClient;
use proptest::prelude::*;
#[allow(unused_imports)]
use crate::prop_oneof;
use serde::{Deserialize, Serialize};
use soroban_sdk::testutils::Address as _;
use soroban_sdk::token::TokenClient;
use soroban_sdk::xdr::ScVal;
use soroban_sdk::{Address, Bytes, BytesN, IntoVal, Symbol, Val, Vec as SVec};
use std::collections::{BTreeMap, BTreeSet};

pub const CONTRACT_DIRS: [&str; 7] =
    ["axelar-gateway", "axelar-gas-service", "axelar-operators", "interchain-token-service", "interchain-token", "upgrader", "example"];

#[derive(Clone, Debug, Serialize, Deserialize, PartialEq, Eq, PartialOrd, Ord)]
pub struct Ep {
    pub contract: String,
    pub name: String,
    /// normalised parameter types (without `Env`)
    pub types: Vec<String>,
    /// parameter names (same length as `types`; used only to choose among value pools)
    #[serde(default)]
    pub names: Vec<String>,
    /// not in the inventory taken at the pinned commit
    #[serde(default)]
    pub unlisted: bool,
}

pub fn repo_root() -> std::path::PathBuf {
    std::env::var("VERIF_REPO").map(Into::into).unwrap_or_else(|_| "/repo".into())
}

// ---------------------------------------------------------------------------------------------
// source scan

fn strip_comments(src: &str) -> String {
    let b = src.as_bytes();
    let mut out = String::with_capacity(src.len());
    let mut i = 0;
    while i < b.len() {
        if b[i] == b'/' && i + 1 < b.len() && b[i + 1] == b'/' {
            while i < b.len() && b[i] != b'\n' {
                i += 1;
            }
        } else if b[i] == b'/' && i + 1 < b.len() && b[i + 1] == b'*' {
            i += 2;
            while i + 1 < b.len() && !(b[i] == b'*' && b[i + 1] == b'/') {
                i += 1;
            }
            i += 2;
        } else if b[i] == b'"' {
            // string literal: keep the quotes, blank the contents (braces inside would confuse matching)
            out.push('"');
            i += 1;
            while i < b.len() && b[i] != b'"' {
                if b[i] == b'\\' {
                    i += 1;
                }
                i += 1;
            }
            out.push('"');
            i += 1;
        } else {
            out.push(b[i] as char);
            i += 1;
        }
    }
    out
}

#[derive(Clone, Debug, PartialEq)]
enum Tok {
    Id(String),
    P(char),
}

fn tokenize(s: &str) -> Vec<Tok> {
    let mut v = vec![];
    let cs: Vec<char> = s.chars().collect();
    let mut i = 0;
    while i < cs.len() {
        let c = cs[i];
        if c.is_alphanumeric() || c == '_' {
            let st = i;
            while i < cs.len() && (cs[i].is_alphanumeric() || cs[i] == '_') {
                i += 1;
            }
            v.push(Tok::Id(cs[st..i].iter().collect()));
        } else if c.is_whitespace() {
            i += 1;
        } else {
            v.push(Tok::P(c));
            i += 1;
        }
    }
    v
}

fn toks_to_type(t: &[Tok]) -> String {
    let mut s = String::new();
    for x in t {
        match x {
            Tok::Id(i) => {
                if i == "mut" || i == "soroban_sdk" || i == "axelar_soroban_std" || i == "types" || i == "crate" {
                    continue;
                }
                s.push_str(i)
            }
            Tok::P('&') | Tok::P(':') | Tok::P('\'') => {}
            Tok::P(c) => s.push(*c),
        }
    }
    s
}

/// (derive name or None, function name, param types, is exported)
fn scan_text(src: &str) -> Vec<(Option<String>, String, Vec<String>, Vec<String>)> {
    let toks = tokenize(&strip_comments(src));
    let mut out = vec![];
    let mut i = 0;
    let mut last_derive: Option<String> = None;
    while i < toks.len() {
        if toks[i] == Tok::Id("proc_macro_derive".into()) {
            if let Some(Tok::Id(n)) = toks.get(i + 2) {
                last_derive = Some(n.clone());
            }
        }
        if toks[i] == Tok::Id("contractimpl".into()) && toks.get(i + 1) == Some(&Tok::P(']')) {
            // find `impl` header
            let mut j = i + 2;
            while j < toks.len() && toks[j] != Tok::Id("impl".into()) {
                j += 1;
            }
            let mut k = j;
            let mut is_trait = false;
            while k < toks.len() && toks[k] != Tok::P('{') {
                if toks[k] == Tok::Id("for".into()) {
                    is_trait = true;
                }
                k += 1;
            }
            // walk the block
            let mut depth = 0i32;
            let mut m = k;
            while m < toks.len() {
                match &toks[m] {
                    Tok::P('{') => depth += 1,
                    Tok::P('}') => {
                        depth -= 1;
                        if depth == 0 {
                            break;
                        }
                    }
                    Tok::Id(f) if f == "fn" && depth == 1 => {
                        let is_pub = m >= 1 && toks[m - 1] == Tok::Id("pub".into());
                        if let Some(Tok::Id(name)) = toks.get(m + 1) {
                            // params: first '(' after the name, to its match
                            let mut p = m + 2;
                            while p < toks.len() && toks[p] != Tok::P('(') {
                                p += 1;
                            }
                            let mut pd = 0i32;
                            let mut q = p;
                            let mut params: Vec<Vec<Tok>> = vec![vec![]];
                            let mut ang = 0i32;
                            while q < toks.len() {
                                match &toks[q] {
                                    Tok::P('(') => {
                                        pd += 1;
                                        if pd > 1 {
                                            params.last_mut().unwrap().push(toks[q].clone());
                                        }
                                    }
                                    Tok::P(')') => {
                                        pd -= 1;
                                        if pd == 0 {
                                            break;
                                        }
                                        params.last_mut().unwrap().push(toks[q].clone());
                                    }
                                    Tok::P('<') => {
                                        ang += 1;
                                        params.last_mut().unwrap().push(toks[q].clone());
                                    }
                                    Tok::P('>') => {
                                        ang -= 1;
                                        params.last_mut().unwrap().push(toks[q].clone());
                                    }
                                    Tok::P(',') if pd == 1 && ang == 0 => params.push(vec![]),
                                    t => params.last_mut().unwrap().push(t.clone()),
                                }
                                q += 1;
                            }
                            let mut types = vec![];
                            let mut names = vec![];
                            for prm in params.iter().filter(|p| !p.is_empty()) {
                                // name ':' type   (skip leading `mut`, `_name`)
                                let colon = prm.iter().position(|t| *t == Tok::P(':'));
                                if let Some(c) = colon {
                                    let ty = toks_to_type(&prm[c + 1..]);
                                    if ty != "Env" {
                                        types.push(ty);
                                        names.push(match prm[..c].last() {
                                            Some(Tok::Id(n)) => n.clone(),
                                            _ => String::new(),
                                        });
                                    }
                                }
                            }
                            if (is_trait || is_pub) && !name.starts_with("__") {
                                out.push((last_derive.clone(), name.clone(), types, names));
                            }
                            m = q;
                        }
                    }
                    _ => {}
                }
                m += 1;
            }
            i = m;
        }
        i += 1;
    }
    out
}

fn rs_files(dir: &std::path::Path, out: &mut Vec<std::path::PathBuf>) {
    if let Ok(rd) = std::fs::read_dir(dir) {
        let mut es: Vec<_> = rd.flatten().map(|e| e.path()).collect();
        es.sort();
        for p in es {
            if p.is_dir() {
                rs_files(&p, out);
            } else if p.extension().map(|e| e == "rs").unwrap_or(false) {
                out.push(p);
            }
        }
    }
}

fn baseline() -> BTreeSet<String> {
    include_str!("../ep_baseline.txt").lines().map(|l| l.trim().to_string()).filter(|l| !l.is_empty()).collect()
}

/// Every exported entry point of every shipped contract, read from the tree under test.
pub fn scan_repo() -> Vec<Ep> {
    let root = repo_root();
    let base = baseline();
    let mut derive_eps: Vec<(String, String, Vec<String>, Vec<String>)> = vec![];
    let mut files = vec![];
    rs_files(&root.join("packages/axelar-soroban-std-derive/src"), &mut files);
    for f in &files {
        if let Ok(src) = std::fs::read_to_string(f) {
            for (d, name, types, names) in scan_text(&src) {
                if let Some(d) = d {
                    let types = types.into_iter().map(|t| if t.starts_with('#') { "()".to_string() } else { t }).collect();
                    derive_eps.push((d, name, types, names));
                }
            }
        }
    }
    let mut eps = BTreeSet::new();
    for c in CONTRACT_DIRS {
        let mut files = vec![];
        rs_files(&root.join("contracts").join(c).join("src"), &mut files);
        for f in &files {
            if f.components().any(|x| x.as_os_str() == "tests") {
                continue;
            }
            let Ok(src) = std::fs::read_to_string(f) else { continue };
            for (_, name, types, names) in scan_text(&src) {
                eps.insert(Ep { contract: c.to_string(), name, types, names, unlisted: false });
            }
            // derive-generated entry points
            let stripped = strip_comments(&src);
            for line in stripped.lines().filter(|l| l.contains("derive(")) {
                let words: Vec<Tok> = tokenize(line);
                for (d, name, types, names) in &derive_eps {
                    if words.contains(&Tok::Id(d.clone())) {
                        let mut types = types.clone();
                        if name == "migrate" && types.len() == 1 {
                            types[0] = migration_type(c);
                        }
                        eps.insert(Ep { contract: c.to_string(), name: name.clone(), types, names: names.clone(), unlisted: false });
                    }
                }
            }
        }
    }
    eps.into_iter()
        .map(|mut e| {
            e.unlisted = !base.contains(&format!("{}::{}", e.contract, e.name));
            e
        })
        .collect()
}

/// The migration data type a shipped contract declares (`#[migratable(with_type = T)]`); "()" when it declares none.
pub fn migration_type(contract_dir: &str) -> String {
    static CACHE: std::sync::OnceLock<std::sync::Mutex<BTreeMap<String, String>>> = std::sync::OnceLock::new();
    let cache = CACHE.get_or_init(Default::default);
    if let Some(t) = cache.lock().unwrap().get(contract_dir) {
        return t.clone();
    }
    let t = migration_type_uncached(contract_dir);
    cache.lock().unwrap().insert(contract_dir.to_string(), t.clone());
    t
}

fn migration_type_uncached(contract_dir: &str) -> String {
    let mut files = vec![];
    rs_files(&repo_root().join("contracts").join(contract_dir).join("src"), &mut files);
    for f in &files {
        let Ok(src) = std::fs::read_to_string(f) else { continue };
        let toks = tokenize(&strip_comments(&src));
        for i in 0..toks.len() {
            if toks[i] == Tok::Id("migratable".into()) && toks.get(i + 1) == Some(&Tok::P('(')) && toks.get(i + 2) == Some(&Tok::Id("with_type".into())) && toks.get(i + 3) == Some(&Tok::P('=')) {
                let mut depth = 0i32;
                let mut j = i + 4;
                while j < toks.len() {
                    match toks[j] {
                        Tok::P('(') => depth += 1,
                        Tok::P(')') => {
                            if depth == 0 {
                                break;
                            }
                            depth -= 1;
                        }
                        Tok::P(',') if depth == 0 && !toks[i + 4..j].iter().any(|t| *t == Tok::P('<')) => break,
                        _ => {}
                    }
                    j += 1;
                }
                return toks_to_type(&toks[i + 4..j]);
            }
        }
    }
    "()".to_string()
}

/// every migration data type other than `()` declared by a shipped contract (read once per process)
pub fn migration_types() -> &'static Vec<String> {
    static T: std::sync::OnceLock<Vec<String>> = std::sync::OnceLock::new();
    T.get_or_init(|| {
        let mut v: Vec<String> = CONTRACT_DIRS.iter().map(|c| migration_type(c)).filter(|t| t != "()").collect();
        v.sort();
        v.dedup();
        v
    })
}

/// top-level components of a tuple type "(A,B<C,D>,E)"
pub fn tuple_parts(ty: &str) -> Option<Vec<&str>> {
    if !(ty.starts_with('(') && ty.ends_with(')')) || ty == "()" {
        return None;
    }
    let inner = &ty[1..ty.len() - 1];
    let mut parts = vec![];
    let (mut depth, mut st) = (0i32, 0usize);
    for (i, c) in inner.char_indices() {
        match c {
            '<' | '(' => depth += 1,
            '>' | ')' => depth -= 1,
            ',' if depth == 0 => {
                parts.push(&inner[st..i]);
                st = i + 1;
            }
            _ => {}
        }
    }
    if st < inner.len() {
        parts.push(&inner[st..]);
    }
    Some(parts)
}

pub fn inventory_lines() -> Vec<String> {
    scan_repo().into_iter().map(|e| format!("{}::{}", e.contract, e.name)).collect()
}

// ---------------------------------------------------------------------------------------------
// argument generation

fn split_generic(ty: &str) -> Option<(&str, &str)> {
    let lt = ty.find('<')?;
    if !ty.ends_with('>') {
        return None;
    }
    Some((&ty[..lt], &ty[lt + 1..ty.len() - 1]))
}

pub fn probeable(ty: &str) -> bool {
    match ty {
        "Address" | "String" | "Bytes" | "BytesN<32>" | "Token" | "i128" | "u128" | "u64" | "u32" | "i32" | "i64" | "bool" | "Symbol" | "Val" | "()"
        | "TokenMetadata" | "Message" | "Proof" | "WeightedSigners" => true,
        _ => match split_generic(ty) {
            Some(("Option", t)) | Some(("Vec", t)) => probeable(t),
            _ => tuple_parts(ty).map(|ps| ps.iter().all(|p| probeable(p))).unwrap_or(false),
        },
    }
}

fn mix(seed: u64, n: u64) -> u64 {
    let mut x = seed ^ n.wrapping_mul(0x9E37_79B9_7F4A_7C15);
    x ^= x >> 33;
    x = x.wrapping_mul(0xff51_afd7_ed55_8ccd);
    x ^= x >> 29;
    x
}

pub struct SweepWorld<'a> {
    pub w: ItsWorld<'a>,
    pub ops: AxelarOperatorsClient<'a>,
    pub ops_owner: Address,
    pub ops_operator: Address,
    pub upgrader: Address,
    pub example: Address,
    /// deployed through the token service (its owner is the token service)
    pub t1: Address,
    pub t1_id: [u8; 32],
    /// stand-alone interchain token owned by an account
    pub t2: InterchainTokenClient<'a>,
    pub t2_owner: Address,
    pub minter: Address,
    pub user_a: Address,
    pub user_b: Address,
    pub stranger: Address,
    pub accounts: Vec<Address>,
    pub contracts: Vec<Address>,
    pub names: Vec<String>,
    /// a second gas service whose collector is the operators contract
    pub gas2: Address,
    /// (chain, id, destination) of messages the gateway holds approved (source address "hub-address", zero payload hash)
    pub approved: Vec<(&'static str, &'static str, Address)>,
    /// id under which the gas asset is registered as canonical (the service holds `CUSTODY` of it)
    pub canonical_id: [u8; 32],
    /// (message id, payload) of an approved, conforming hub message for the token service (only in worlds built for
    /// rules that can tell a legitimate delivery apart)
    pub inbound: Option<(&'static str, Vec<u8>)>,
    /// answers every function name
    pub anyfn: Address,
    /// what earlier calls of the sequence were authorised by whom: (signers, addresses named in the arguments)
    pub history: std::cell::RefCell<Vec<(Vec<Address>, Vec<Address>)>>,
    /// signer sets that were outside the gateway's retention window when the world was built
    pub old_sets: Vec<BuiltSet>,
    /// the gateway's newest signer set (changes when a swept call rotates with a valid proof)
    pub latest: std::cell::RefCell<BuiltSet>,
    /// valid rotation proofs shown to the gateway so far: (hash of the proving set, candidate)
    pub presented: std::cell::RefCell<Vec<([u8; 32], BuiltSet)>>,
}

pub const CUSTODY: i128 = 7_000;

pub const TRUSTED: &str = "ethereum";

pub fn build_world<'a>(open_windows: u8, symbols: &[String], with_inbound: bool) -> SweepWorld<'a> {
    let mut w = crate::itsw::build_its_world_retaining("stellar", "hub-address", 0, 1);
    let env = w.env.clone();
    // the gateway (which honours one previous signer set) has rotated three times: two signer sets are outside the
    // window for good, one is the retained previous set
    let mut old_sets: Vec<BuiltSet> = vec![];
    let latest0;
    for tag in [8u16, 9, 10] {
        let next = simple_set(tag);
        env.mock_all_auths();
        assert!(w.gw.rotate(&env, &next, &w.set, w.set.full_mask(), false), "setup: honest rotation refused");
        old_sets.push(w.set.clone());
        w.set = next;
    }
    old_sets.pop(); // (the set rotated away last is still inside the window)
    latest0 = w.set.clone();
    w.trust(TRUSTED);
    let ops_owner = Address::generate(&env);
    let ops_operator = Address::generate(&env);
    let ops_id = env.register(AxelarOperators, (&ops_owner,));
    let ops = AxelarOperatorsClient::new(&env, &ops_id);
    env.mock_all_auths();
    ops.add_operator(&ops_operator);
    let upgrader = env.register(upgrader::Upgrader, ());
    let example = env.register(example::Example, (&w.gw.id, &w.gas.id));
    let minter = Address::generate(&env);
    let user_a = Address::generate(&env);
    let user_b = Address::generate(&env);
    let stranger = Address::generate(&env);
    let t2_owner = Address::generate(&env);
    let (t1_id, t1) = w.deploy_token(&user_a, &[7; 32], b"Swept", b"SWP", 6, 1_000_000, Some(minter.clone())).expect("deploy t1");
    let t2 = register_native_token(&env, &t2_owner, Some(minter.clone()), h32("sweep-t2", 0), "Second", "SND", 6);
    env.mock_all_auths();
    t2.mint_from(&minter, &user_a, &1_000_000);
    // custody of the gas service in three tokens
    w.mint_asset(&w.gas_asset, &w.gas.id, 50_000);
    w.mint_asset(&w.gas_asset, &user_a, 50_000);
    env.mock_all_auths();
    TokenClient::new(&env, &t1).transfer(&user_a, &w.gas.id, &40_000);
    TokenClient::new(&env, &t2.address).transfer(&user_a, &w.gas.id, &40_000);
    // second gas service: the operators contract is its collector
    let gas2_owner = Address::generate(&env);
    let gas2 = env.register(axelar_gas_service::AxelarGasService, (&gas2_owner, &ops_id));
    w.mint_asset(&w.gas_asset, &gas2, 30_000);
    // allowances user_a -> user_b
    env.mock_all_auths();
    let far = env.ledger().sequence() + 100_000;
    for t in [&w.gas_asset, &t1, &t2.address] {
        TokenClient::new(&env, t).approve(&user_a, &user_b, &5_000, &far);
    }
    // the gas asset registered as canonical, some of it locked by an outbound transfer of user_a
    env.mock_all_auths_allowing_non_root_auth();
    let canonical_id = w.its.client.register_canonical_token(&w.gas_asset).to_array();
    w.its
        .client
        .interchain_transfer(&user_a, &BytesN::from_array(&env, &canonical_id), &sstr(&env, TRUSTED), &Bytes::from_slice(&env, &[1u8; 20]), &CUSTODY, &None, &Token { address: w.gas_asset.clone(), amount: 1 });
    // messages the gateway holds approved
    let dests = [user_a.clone(), example.clone(), user_b.clone(), w.its.id.clone(), user_b.clone(), user_a.clone(), stranger.clone(), example.clone()];
    let mut approved: Vec<(&'static str, &'static str, Address)> = vec![];
    for (ci, c) in [TRUSTED, "avalanche", "stellar", "axelar"].into_iter().enumerate() {
        for (ii, i) in ["msg-1", "msg-2"].into_iter().enumerate() {
            approved.push((c, i, dests[ci * 2 + ii].clone()));
        }
    }
    let msgs: Vec<axelar_gateway::types::Message> = approved
        .iter()
        .map(|(c, i, d)| axelar_gateway::types::Message {
            source_chain: sstr(&env, c),
            message_id: sstr(&env, i),
            source_address: sstr(&env, "hub-address"),
            contract_address: d.clone(),
            payload_hash: BytesN::from_array(&env, &[0; 32]),
        })
        .collect();
    w.gw.approve(&env, &w.set, &msgs).expect("approve");
    // two of them (addressed to accounts) have been consumed by their destinations already: an executed message stays executed
    env.mock_all_auths();
    for k in [0usize, 4] {
        let m = &msgs[k];
        let consumed = w.gw.client.validate_message(&m.contract_address, &m.source_chain, &m.message_id, &m.source_address, &m.payload_hash);
        assert!(consumed, "setup: consumption by the destination refused");
    }
    // a message the example app has been delivered (and acted on) already
    {
        let payload = b"delivered-once";
        let m = axelar_gateway::types::Message {
            source_chain: sstr(&env, TRUSTED),
            message_id: sstr(&env, "msg-7"),
            source_address: sstr(&env, "hub-address"),
            contract_address: example.clone(),
            payload_hash: BytesN::from_array(&env, &crate::oracle::keccak256(payload)),
        };
        w.gw.approve(&env, &w.set, &[m]).expect("approve");
        env.set_auths(&[]);
        example::ExampleClient::new(&env, &example).execute(&sstr(&env, TRUSTED), &sstr(&env, "msg-7"), &sstr(&env, "hub-address"), &Bytes::from_slice(&env, payload));
        env.mock_all_auths();
    }
    let inbound = if with_inbound {
        // (the canonical token: the service-deployed one was deployed in the configuration of known finding C11 and cannot be minted)
        let inner = crate::oracle::AMsg::Transfer { token_id: canonical_id, source: vec![7, 7], dest: address_xdr(&env, &user_b), amount: crate::oracle::word_u128(3), data: vec![] };
        let payload = ItsWorld::receive_payload(TRUSTED, &inner);
        w.approve_for_its(HUB_CHAIN, "msg-9", "hub-address", &payload).expect("approve inbound");
        Some(("msg-9", payload))
    } else {
        None
    };
    // contracts left in the upgraded-but-not-migrated state by their owners
    let h = BytesN::from_array(&env, &empty_wasm_hash());
    env.mock_all_auths();
    if open_windows & 1 != 0 {
        w.gw.client.upgrade(&h);
    }
    if open_windows & 2 != 0 {
        w.gas.client.upgrade(&h);
    }
    if open_windows & 4 != 0 {
        w.its.client.upgrade(&h);
    }
    if open_windows & 8 != 0 {
        t2.upgrade(&h);
    }
    let accounts = vec![
        w.gw.owner.clone(),
        w.gw.operator.clone(),
        w.gas.owner.clone(),
        w.gas.collector.clone(),
        ops_owner.clone(),
        ops_operator.clone(),
        w.its.owner.clone(),
        t2_owner.clone(),
        minter.clone(),
        user_a.clone(),
        user_b.clone(),
        stranger.clone(),
    ];
    let contracts = vec![w.gw.id.clone(), w.gas.id.clone(), ops_id.clone(), w.its.id.clone(), t1.clone(), t2.address.clone(), w.gas_asset.clone(), upgrader.clone(), example.clone(), gas2.clone()];
    let anyfn = env.register(AnyFunction, ());
    let mut names: Vec<String> = symbols.to_vec();
    names.sort();
    names.dedup();
    env.set_auths(&[]);
    SweepWorld { w, ops, ops_owner, ops_operator, upgrader, example, t1, t1_id, t2, t2_owner, minter, user_a, user_b, stranger, accounts, contracts, names, gas2, approved, canonical_id, inbound, anyfn, history: Default::default(), old_sets, latest: std::cell::RefCell::new(latest0), presented: Default::default() }
}

impl<'a> SweepWorld<'a> {
    pub fn env(&self) -> &soroban_sdk::Env {
        &self.w.env
    }
    pub fn target(&self, contract: &str, pick: u64) -> Option<Address> {
        Some(match contract {
            "axelar-gateway" => self.w.gw.id.clone(),
            "axelar-gas-service" => self.w.gas.id.clone(),
            "axelar-operators" => self.ops.address.clone(),
            "interchain-token-service" => self.w.its.id.clone(),
            "interchain-token" => {
                if pick % 2 == 0 {
                    self.t1.clone()
                } else {
                    self.t2.address.clone()
                }
            }
            "upgrader" => self.upgrader.clone(),
            "example" => self.example.clone(),
            _ => return None,
        })
    }
    fn address(&self, seed: u64) -> Address {
        let n = self.accounts.len() + self.contracts.len();
        let i = (seed % n as u64) as usize;
        if i < self.accounts.len() {
            self.accounts[i].clone()
        } else {
            self.contracts[i - self.accounts.len()].clone()
        }
    }
    fn amount(&self, seed: u64) -> i128 {
        [1i128, 0, 100, 10_000, 40_000, 50_000, -1, 1_000_000_000, i128::MAX][(seed % 9) as usize]
    }
    /// like `value`, but lets the parameter name choose a narrower pool for strings
    pub fn value_named(&self, ty: &str, name: &str, seed: u64) -> Val {
        let env = self.env();
        if ty == "Address" && seed % 8 < 5 {
            let k = seed / 8;
            let pool: Vec<&Address> = if name.contains("operator") {
                vec![&self.ops_operator, &self.w.gw.operator, &self.ops_owner]
            } else if name.contains("minter") {
                vec![&self.minter, &self.user_a]
            } else if name.contains("owner") {
                vec![&self.w.gw.owner, &self.w.gas.owner, &self.ops_owner, &self.w.its.owner, &self.t2_owner]
            } else if ["caller", "spender", "from", "sender", "deployer", "id"].contains(&name) {
                vec![&self.user_a, &self.user_b, &self.example, &self.stranger, &self.ops_operator]
            } else if name.contains("token") {
                vec![&self.w.gas_asset, &self.t1, &self.t2.address]
            } else if name == "target" || name.contains("contract") {
                vec![&self.gas2, &self.w.gas.id, &self.w.gw.id, &self.w.its.id, &self.t2.address, &self.ops.address]
            } else {
                return self.value(ty, seed);
            };
            return pool[(k % pool.len() as u64) as usize].clone().into_val(env);
        }
        if ty == "BytesN<32>" && name.contains("payload_hash") && seed % 4 != 3 {
            return BytesN::from_array(env, &[0; 32]).into_val(env);
        }
        if ty == "String" && seed % 4 != 3 {
            let pool: &[&str] = if name.contains("chain") {
                &[TRUSTED, "avalanche", "stellar", "axelar"]
            } else if name.contains("message_id") || name == "id" {
                &["msg-1", "msg-2", "msg-7"]
            } else if name.contains("address") {
                &["hub-address", "0x4F4495243837681061C4743b74B3eEdf548D56A5"]
            } else {
                return self.value(ty, seed);
            };
            return sstr(env, pool[((seed / 4) % pool.len() as u64) as usize]).into_val(env);
        }
        self.value(ty, seed)
    }
    pub fn value(&self, ty: &str, seed: u64) -> Val {
        let env = self.env();
        match ty {
            "Address" => self.address(seed).into_val(env),
            "Message" => axelar_gateway::types::Message {
                source_chain: sstr(env, [TRUSTED, "avalanche", "stellar", "fresh-chain"][(seed % 4) as usize]),
                message_id: sstr(env, ["msg-1", "msg-2", "msg-3", "msg-4"][(seed / 4 % 4) as usize]),
                source_address: sstr(env, "hub-address"),
                contract_address: self.address(mix(seed, 3)),
                payload_hash: BytesN::from_array(env, &[0; 32]),
            }
            .into_val(env),
            // a set nobody installed (well-formed)
            "WeightedSigners" => simple_set(50 + (seed % 3) as u16).to_soroban(env).into_val(env),
            // signatures of the gateway's own signer set, over a digest that belongs to no command
            "Proof" => self.w.set.proof(env, &seeded_bytes(seed, 32).try_into().unwrap(), self.w.set.full_mask()).into_val(env),
            "String" => {
                let pool = [TRUSTED, "axelar", "stellar", "hub-address", "", "avalanche", "msg-1", "0x4F4495243837681061C4743b74B3eEdf548D56A5", "1.0.0", "0.0.0"];
                sstr(env, pool[(seed % pool.len() as u64) as usize]).into_val(env)
            }
            "Bytes" => {
                let lens = [0usize, 20, 32, 100];
                Bytes::from_slice(env, &seeded_bytes(seed, lens[(seed % 4) as usize])).into_val(env)
            }
            "BytesN<32>" => {
                let b: [u8; 32] = match seed % 9 {
                    0..=3 => empty_wasm_hash(),
                    4 => self.t1_id,
                    5 => [0; 32],
                    6 => self.t2.token_id().to_array(),
                    7 => self.canonical_id,
                    _ => seeded_bytes(seed, 32).try_into().unwrap(),
                };
                BytesN::from_array(env, &b).into_val(env)
            }
            "Token" => {
                let a = [&self.w.gas_asset, &self.t1, &self.t2.address, &self.w.gas_asset, &self.stranger][(seed % 5) as usize].clone();
                Token { address: a, amount: self.amount(mix(seed, 1)) }.into_val(env)
            }
            "TokenMetadata" => soroban_token_sdk::metadata::TokenMetadata { decimal: (seed % 19) as u32, name: sstr(env, "Gen"), symbol: sstr(env, "GEN") }.into_val(env),
            "i128" => self.amount(seed).into_val(env),
            "u128" => ([0u128, 1, 100, u128::MAX][(seed % 4) as usize]).into_val(env),
            "u64" => ([0u64, 1, 100, u64::MAX][(seed % 4) as usize]).into_val(env),
            "i64" => ([0i64, 1, -1, i64::MAX][(seed % 4) as usize]).into_val(env),
            "u32" => {
                let now = env.ledger().sequence();
                ([0u32, 1, 7, now, now + 1000, u32::MAX][(seed % 6) as usize]).into_val(env)
            }
            "i32" => ([0i32, 1, -1, i32::MAX][(seed % 4) as usize]).into_val(env),
            "bool" => (seed % 2 == 0).into_val(env),
            "()" => Val::VOID.into(),
            "Symbol" => {
                if self.names.is_empty() {
                    Symbol::new(env, "owner").into_val(env)
                } else {
                    Symbol::new(env, &self.names[(seed % self.names.len() as u64) as usize]).into_val(env)
                }
            }
            "Val" => {
                let tys = ["Address", "i128", "String", "Bytes", "u32", "()", "Token", "BytesN<32>"];
                self.value(tys[(seed % 8) as usize], mix(seed, 2))
            }
            _ => match split_generic(ty) {
                Some(("Option", t)) => {
                    if seed % 3 == 0 {
                        Val::VOID.into()
                    } else {
                        self.value(t, seed / 3)
                    }
                }
                Some(("Vec", t)) => {
                    let n = seed % 4;
                    let mut v: SVec<Val> = SVec::new(env);
                    for i in 0..n {
                        v.push_back(self.value(t, mix(seed, 10 + i)));
                    }
                    v.into_val(env)
                }
                _ => match tuple_parts(ty) {
                    // (tuples travel as vectors) a pair of strings is, three times out of four, the (chain, id) of a
                    // message the gateway holds approved
                    Some(ps) if ps == ["String", "String"] && seed % 4 != 3 => {
                        let (c, i, _) = &self.approved[(seed / 4 % self.approved.len() as u64) as usize];
                        let v: SVec<Val> = SVec::from_array(env, [sstr(env, c).into_val(env), sstr(env, i).into_val(env)]);
                        v.into_val(env)
                    }
                    Some(ps) => {
                        let mut v: SVec<Val> = SVec::new(env);
                        for (k, p) in ps.iter().enumerate() {
                            v.push_back(self.value(p, mix(seed, 20 + k as u64)));
                        }
                        v.into_val(env)
                    }
                    None => Val::VOID.into(),
                },
            },
        }
    }
}

// ---------------------------------------------------------------------------------------------
// cases

#[derive(Clone, Debug, Serialize, Deserialize)]
pub struct SweepCase {
    pub ep: Ep,
    pub seeds: Vec<u64>,
    pub pick: u64,
    /// bit mask of contracts left upgraded-but-not-migrated by their owners
    pub open_windows: u8,
    /// further calls (entry point, argument seeds, target pick) made after the first one
    #[serde(default)]
    pub more: Vec<(Ep, Vec<u64>, u64)>,
}

#[derive(Clone, Copy, Debug, PartialEq, Eq)]
pub enum Rule {
    /// C13: an announcement names a sender that authorised (or is the calling contract)
    Announce,
    /// C14: value leaves the gas service only with the collector's authorisation
    GasOut,
    /// C06: owner / operator / operator-set / trusted-chain / minter changes need the current role holder
    Roles,
    /// C15: code replacement and migration need the owner
    Code,
    /// C01 / C03: without a valid proof nothing is approved and no signer set is installed
    Proofless,
    /// C02: a message becomes executed only for the destination it names
    Consume,
    /// C07: an address loses tokens only with its own authorisation or through an allowance it granted
    Spend,
    /// C17: the operators contract uses its powers only for a current operator
    Operators,
    /// C16: whatever anybody calls, a message the example app has acted on is not delivered to it a second time (not even
    /// after its public, signed approval is submitted to the gateway again)
    Redeliver,
    /// C05: the service releases custody / mints only for approved inbound messages (none exists in the sweep)
    Value,
}

pub fn probeable_eps(eps: &[Ep]) -> Vec<Ep> {
    eps.iter().filter(|e| e.types.iter().all(|t| probeable(t))).cloned().collect()
}

impl Rule {
    /// entry points that get half of the listed-entry-point cases of a rule (a sampling weight only)
    fn focus(self, e: &Ep) -> bool {
        match self {
            Rule::Announce => e.contract == "axelar-gateway" || e.contract == "example" || e.contract == "interchain-token-service",
            Rule::GasOut => e.contract == "axelar-gas-service" || e.types.iter().any(|t| t == "Token"),
            Rule::Roles => ["transfer_", "add_", "remove_", "set_", "upgrade", "migrate"].iter().any(|p| e.name.starts_with(p)) || (e.name == "execute" && e.contract == "interchain-token-service"),
            Rule::Code => e.name.contains("upgrade") || e.name.contains("migrate") || e.types.windows(3).any(|w| w == ["Address", "Symbol", "Vec<Val>"]),
            Rule::Proofless => e.contract == "axelar-gateway",
            Rule::Consume => e.name.contains("validate_message"),
            Rule::Spend => e.contract == "interchain-token" || e.types.iter().any(|t| t == "Token" || t == "i128"),
            Rule::Operators => e.contract == "axelar-operators" && e.name == "execute",
            Rule::Value => e.contract == "interchain-token-service",
            Rule::Redeliver => e.contract == "axelar-gateway" || e.contract == "example",
        }
    }
}

pub fn strategy(rule: Rule) -> Option<BoxedStrategy<SweepCase>> {
    let eps = probeable_eps(&scan_repo());
    if eps.is_empty() {
        return None;
    }
    let unlisted: Vec<Ep> = eps.iter().filter(|e| e.unlisted).cloned().collect();
    let eps_all: Vec<Ep> = eps.clone();
    let focus: Vec<Ep> = eps.iter().filter(|e| rule.focus(e)).cloned().collect();
    let listed: BoxedStrategy<Ep> = if focus.is_empty() { prop::sample::select(eps).boxed() } else { prop_oneof![1 => prop::sample::select(eps), 1 => prop::sample::select(focus)].boxed() };
    let pick_ep: BoxedStrategy<Ep> = if unlisted.is_empty() { listed } else { prop_oneof![1 => listed, 1 => prop::sample::select(unlisted.clone())].boxed() };
    let one = (pick_ep, prop::collection::vec(any::<u64>(), 8), any::<u64>()).prop_map(|(ep, mut seeds, pick)| {
        seeds.truncate(ep.types.len());
        (ep, seeds, pick)
    });
    let one = one.boxed();
    let general = (one.clone(), prop_oneof![3 => Just(0u8), 1 => 0u8..16], prop_oneof![1 => Just(vec![]).boxed(), 1 => prop::collection::vec(one, 1..4).boxed()])
        .prop_map(|((ep, seeds, pick), open_windows, more)| SweepCase { ep, seeds, pick, open_windows, more })
        .boxed();
    if unlisted.is_empty() {
        return Some(general);
    }
    // a tree with entry points the pinned inventory does not know: a third of the cases explore them together with the older
    // entry points of the same contract (sequences of 3-6 calls; address arguments come from a narrowed pool, so that
    // one call meets what another one named)
    let (u, a) = (unlisted.clone(), eps_all.clone());
    let feature = (any::<u64>(), prop::collection::vec(any::<u64>(), 3..7)).prop_map(move |(s0, picks)| feature_sequence(&u, &a, s0, &picks)).boxed();
    Some(prop_oneof![2 => general, 1 => feature].boxed())
}

/// a sequence of calls around the entry points the pinned inventory does not know: one contract that has such entry
/// points is chosen; every call is one of its new entry points (two times in three) or one of its older ones; the argument
/// seeds of all calls are small numbers, so that the pools are sampled at few positions and the calls name the same few
/// addresses, ids and amounts
fn feature_sequence(unlisted: &[Ep], all: &[Ep], s0: u64, picks: &[u64]) -> SweepCase {
    let contract = unlisted[(s0 % unlisted.len() as u64) as usize].contract.clone();
    let new_eps: Vec<&Ep> = unlisted.iter().filter(|e| e.contract == contract).collect();
    let old_eps: Vec<&Ep> = all.iter().filter(|e| e.contract == contract && !e.unlisted).collect();
    // older entry points whose name shares a word with a new one (transfer_ownership ~ propose_ownership, remove_operator ~
    // nominate_operator, rotate_signers ~ schedule_rotation ...): the likeliest to interact; they get three older picks in four
    let words = |n: &str| -> Vec<String> { n.split('_').filter(|w| w.len() >= 5).map(|w| w.trim_end_matches('s').chars().take(5).collect::<String>()).collect() };
    let new_words: Vec<String> = new_eps.iter().flat_map(|e| words(&e.name)).collect();
    let related: Vec<&Ep> = old_eps.iter().filter(|e| words(&e.name).iter().any(|w| new_words.contains(w))).cloned().collect();
    let narrow = s0 / 7 % 3 + 2; // 2..4 pool positions per argument
    let mut calls: Vec<(Ep, Vec<u64>, u64)> = vec![];
    if s0 / 11 % 2 == 0 {
        // every new entry point and every related older one once, in a random order (a longer protocol - nominate, add, remove,
        // accept - is met as one of the orderings), all arguments from a palette of two values
        let mut pool: Vec<&Ep> = new_eps.iter().cloned().chain(related.iter().cloned()).collect();
        let mut k = 0u64;
        while !pool.is_empty() && calls.len() < 8 {
            let i = (mix(s0, 500 + k) % pool.len() as u64) as usize;
            let ep = pool.remove(i);
            // (half of these sequences: one value per parameter *name* - every call's `account` is the same account)
            let seeds: Vec<u64> = (0..ep.types.len() as u64)
                .map(|j| {
                    if s0 / 13 % 2 == 0 {
                        let h = ep.names.get(j as usize).map(|n| n.bytes().fold(7u64, |a, b| a.wrapping_mul(31).wrapping_add(b as u64))).unwrap_or(j);
                        mix(s0, 2000 + h % 97) % 64
                    } else {
                        mix(s0, 1000 + mix(s0 ^ k, j) % 2) % 64
                    }
                })
                .collect();
            calls.push((ep.clone(), seeds, s0 % 5));
            k += 1;
        }
        let (ep, seeds, pick) = calls.remove(0);
        return SweepCase { ep, seeds, pick, open_windows: 0, more: calls };
    }
    for (k, p) in picks.iter().enumerate() {
        let ep: &Ep = if p % 3 != 0 || old_eps.is_empty() {
            new_eps[(p / 3 % new_eps.len() as u64) as usize]
        } else if !related.is_empty() && p / 3 % 4 != 0 {
            related[(p / 12 % related.len() as u64) as usize]
        } else {
            old_eps[(p / 12 % old_eps.len() as u64) as usize]
        };
        // every argument seed comes from a palette of 2-4 values fixed for the whole sequence: arguments of the same type and
        // name get the same value again and again (the same account nominated, added, removed and accepting)
        // (the other half of the sequences: small, varied seeds - few pool positions, but not the same ones everywhere)
        let seeds: Vec<u64> = if s0 / 3 % 2 == 0 {
            (0..ep.types.len() as u64).map(|j| mix(s0, 1000 + mix(*p, 31 * k as u64 + j) % narrow) % 64).collect()
        } else {
            (0..ep.types.len() as u64).map(|j| 4 * (mix(*p, j) % narrow) + mix(s0, 31 * k as u64 + j) % 3).collect()
        };
        calls.push((ep.clone(), seeds, s0 % 5));
    }
    let (ep, seeds, pick) = calls.remove(0);
    SweepCase { ep, seeds, pick, open_windows: 0, more: calls }
}

/// deterministic cases for entry points that are not in the pinned inventory: single calls, and (half of them) sequences
/// around them (`feature_sequence`)
pub fn fixed_cases(per_ep: u64) -> Vec<SweepCase> {
    let mut v = vec![];
    let eps = probeable_eps(&scan_repo());
    let unlisted: Vec<Ep> = eps.iter().filter(|e| e.unlisted).cloned().collect();
    for ep in unlisted.iter() {
        for i in 0..per_ep {
            let seeds = (0..ep.types.len() as u64).map(|k| mix(i, 100 + k)).collect();
            v.push(SweepCase { ep: ep.clone(), seeds, pick: i, open_windows: if i % 4 == 3 { (i / 4 % 16) as u8 } else { 0 }, more: vec![] });
        }
        for i in 0..per_ep {
            let n = 3 + (i % 4) as usize;
            let me = unlisted.iter().position(|e| e.contract == ep.contract && e.name == ep.name).unwrap_or(0) as u64;
            let picks: Vec<u64> = (0..n as u64).map(|k| mix(i * 7919 + 13 + 104_729 * me, k)).collect();
            let idx = unlisted.iter().position(|e| e.contract == ep.contract).unwrap_or(0) as u64;
            // (s0 chosen so that the sequence explores this entry point's contract; different for every new entry point)
            let s0 = idx + unlisted.len() as u64 * mix(i, 77 + me).wrapping_rem(1 << 40);
            v.push(feature_sequence(&unlisted, &eps, s0, &picks));
        }
    }
    v
}

fn migrating_flag(env: &soroban_sdk::Env, target: &Address) -> bool {
    let key: SVec<Symbol> = SVec::from_array(env, [Symbol::new(env, "Interfaces_Migrating")]);
    env.as_contract(target, || env.storage().instance().has(&key))
}

struct Obs {
    owners: Vec<Option<Address>>,
    gw_operator: Option<Address>,
    is_operator: Vec<bool>,
    trusted: Vec<bool>,
    minters: Vec<bool>,
    gas_bal: Vec<i128>,
    flags: Vec<bool>,
    epoch: u64,
    approved: Vec<bool>,
    executed: Vec<bool>,
    /// [token][holder] balances over accounts and contracts
    bal: Vec<Vec<i128>>,
    gas2_bal: i128,
    collector: Option<Address>,
}

pub fn run(case: &SweepCase, cx: &mut Cx, rule: Rule) -> Result<(), String> {
    let all = scan_names();
    let sw = build_world(case.open_windows, &all, rule == Rule::Roles);
    if !step(&sw, &case.ep, &case.seeds, case.pick, cx, rule)? {
        return Ok(());
    }
    // further calls on the state the earlier ones left behind; the invariant is applied to every call
    for (k, (ep, seeds, pick)) in case.more.iter().enumerate() {
        cx.label(["sweep_sequence_of_2", "sweep_sequence_of_3", "sweep_sequence_of_4"][k.min(2)]);
        if !step(&sw, ep, seeds, *pick, cx, rule)? {
            break;
        }
    }
    Ok(())
}

/// one call; Ok(false) = the sequence must stop here (the mock produced a state no transaction could)
fn step(sw: &SweepWorld, ep: &Ep, seeds: &[u64], pick: u64, cx: &mut Cx, rule: Rule) -> Result<bool, String> {
    let env = sw.env().clone();
    let Some(target) = sw.target(&ep.contract, pick) else { return Ok(false) };
    cx.label(&format!("sweep:{}::{}", ep.contract, ep.name));
    if ep.unlisted {
        cx.label("sweep_entry_point_not_in_pinned_inventory");
    }
    let mut args: SVec<Val> = SVec::new(&env);
    for (i, (t, s)) in ep.types.iter().zip(seeds.iter()).enumerate() {
        args.push_back(sw.value_named(t, ep.names.get(i).map(|x| x.as_str()).unwrap_or(""), *s));
    }
    if args.len() as usize != ep.types.len() {
        return Ok(false);
    }
    // a signer set and a proof in one call: in half of the cases the proof is a *valid* rotation proof of the gateway's newest
    // set for exactly that candidate (so that rotations, and whatever a tree builds on them, can really happen)
    if let (Some(iw), Some(ip)) = (ep.types.iter().position(|t| t == "WeightedSigners"), ep.types.iter().position(|t| t == "Proof")) {
        if seeds[iw] % 2 == 0 && rule == Rule::Proofless {
            let cand = simple_set(60 + (seeds[iw] / 2 % 5) as u16);
            let latest = sw.latest.borrow().clone();
            let proof = latest.proof(&env, &digest(&sw.w.gw.domain, &latest.hash(), &cand.rotation_data_hash()), latest.full_mask());
            args.set(iw as u32, cand.to_soroban(&env).into_val(&env));
            args.set(ip as u32, proof.into_val(&env));
            sw.presented.borrow_mut().push((latest.hash(), cand));
            cx.label("sweep_valid_rotation_proof_presented");
        }
    }
    // a delivery to the token service: in half of the cases exactly the approved, conforming hub message
    if let Some((mid, payload)) = &sw.inbound {
        if ep.contract == "interchain-token-service" && ep.name == "execute" && ep.types == ["String", "String", "String", "Bytes"] && seeds.first().map(|s| s % 2 == 0).unwrap_or(false) {
            args = SVec::new(&env);
            args.push_back(sstr(&env, HUB_CHAIN).into_val(&env));
            args.push_back(sstr(&env, mid).into_val(&env));
            args.push_back(sstr(&env, "hub-address").into_val(&env));
            args.push_back(Bytes::from_slice(&env, payload).into_val(&env));
            cx.label("sweep_conforming_inbound_delivery");
        }
    }
    // call forwarding (target: Address, func: Symbol, args: Vec<Val>): in half of the cases the three are chosen
    // together, so that the forwarded call names a real entry point of the target with well-typed arguments
    if let Some(i) = (0..ep.types.len().saturating_sub(2)).find(|i| ep.types[*i] == "Address" && ep.types[*i + 1] == "Symbol" && ep.types[*i + 2] == "Vec<Val>") {
        let s0 = seeds[i + 1];
        let keys = scan_key_names();
        if (s0 % 8 == 3 || (rule == Rule::Code && s0 % 2 == 1)) && !keys.is_empty() {
            // the forwarded function is *named like a storage key* of the tree under test, and the target answers it;
            // half of the time a key of the interfaces every contract shares; mostly by a caller entitled to forward
            let shared: Vec<&String> = keys.iter().filter(|k| k.starts_with("Interfaces")).collect();
            let key = if s0 / 8 % 2 == 0 && !shared.is_empty() { shared[((s0 / 16) % shared.len() as u64) as usize] } else { &keys[((s0 / 16) % keys.len() as u64) as usize] };
            if s0 / 64 % 4 != 0 {
                for j in 0..i {
                    if ep.types[j] == "Address" {
                        args.set(j as u32, sw.ops_operator.clone().into_val(&env));
                    }
                }
            }
            args.set(i as u32, sw.anyfn.clone().into_val(&env));
            args.set(i as u32 + 1, Symbol::new(&env, key).into_val(&env));
            args.set(i as u32 + 2, SVec::<Val>::new(&env).into_val(&env));
            cx.label("sweep_forwarded_call_named_like_a_storage_key");
        } else if s0 % 2 == 0 {
            let mut all = probeable_eps(&scan_cached());
            if s0 % 4 == 0 {
                // half of the coordinated cases forward one of the gas service's payout calls
                let hot: Vec<Ep> = all.iter().filter(|e| e.contract == "axelar-gas-service" && e.types.iter().any(|t| t == "Token") && !e.names.iter().any(|n| n == "spender" || n == "sender")).cloned().collect();
                if !hot.is_empty() {
                    all = hot;
                }
            }
            let e = &all[((s0 / 4) % all.len() as u64) as usize];
            let tgt = if e.contract == "axelar-gas-service" && s0 % 3 != 0 { Some(sw.gas2.clone()) } else { sw.target(&e.contract, s0 / 7) };
            if let Some(tgt) = tgt {
                let mut inner: SVec<Val> = SVec::new(&env);
                for (k, t) in e.types.iter().enumerate() {
                    inner.push_back(sw.value_named(t, e.names.get(k).map(|x| x.as_str()).unwrap_or(""), mix(seeds[i + 2], k as u64)));
                }
                args.set(i as u32, tgt.into_val(&env));
                args.set(i as u32 + 1, Symbol::new(&env, &e.name).into_val(&env));
                args.set(i as u32 + 2, inner.into_val(&env));
                cx.label("sweep_forwarded_call_well_formed");
            }
        }
    }
    // contracts with an owner
    let owned: Vec<Address> = vec![sw.w.gw.id.clone(), sw.w.gas.id.clone(), sw.ops.address.clone(), sw.w.its.id.clone(), sw.t1.clone(), sw.t2.address.clone()];
    let chains = [TRUSTED, "avalanche", "axelar", "stellar", ""];
    let tokens = [sw.w.gas_asset.clone(), sw.t1.clone(), sw.t2.address.clone()];
    let observe = || -> Obs {
        env.set_auths(&[]);
        Obs {
            owners: owned
                .iter()
                .map(|c| match env.try_invoke_contract::<Address, soroban_sdk::Error>(c, &Symbol::new(&env, "owner"), SVec::new(&env)) {
                    Ok(Ok(a)) => Some(a),
                    _ => None,
                })
                .collect(),
            gw_operator: sw.w.gw.client.try_operator().ok().and_then(|r| r.ok()),
            is_operator: sw.accounts.iter().chain(sw.contracts.iter()).map(|a| sw.ops.is_operator(a)).collect(),
            trusted: chains.iter().map(|c| sw.w.its.client.is_trusted_chain(&sstr(&env, c))).collect(),
            minters: sw
                .accounts
                .iter()
                .chain(sw.contracts.iter())
                .flat_map(|a| [InterchainTokenClient::new(&env, &sw.t1).is_minter(a), sw.t2.is_minter(a)])
                .collect(),
            gas_bal: tokens.iter().map(|t| TokenClient::new(&env, t).balance(&sw.w.gas.id)).collect(),
            flags: owned.iter().map(|c| migrating_flag(&env, c)).collect(),
            epoch: sw.w.gw.client.epoch(),
            approved: sw
                .approved
                .iter()
                .map(|(c, i, d)| sw.w.gw.client.is_message_approved(&sstr(&env, c), &sstr(&env, i), &sstr(&env, "hub-address"), d, &BytesN::from_array(&env, &[0; 32])))
                .collect(),
            executed: sw.approved.iter().map(|(c, i, _)| sw.w.gw.client.is_message_executed(&sstr(&env, c), &sstr(&env, i))).collect(),
            bal: tokens.iter().map(|t| sw.accounts.iter().chain(sw.contracts.iter()).map(|a| TokenClient::new(&env, t).balance(a)).collect()).collect(),
            gas2_bal: TokenClient::new(&env, &sw.w.gas_asset).balance(&sw.gas2),
            collector: sw.w.gas.client.try_gas_collector().ok().and_then(|r| r.ok()),
        }
    };
    let before = observe();
    let allowance_before: Vec<Vec<Vec<i128>>> = if rule == Rule::Spend {
        // [token][holder][spender among accounts]
        tokens
            .iter()
            .map(|t| sw.accounts.iter().map(|h| sw.accounts.iter().map(|sp| TokenClient::new(&env, t).allowance(h, sp)).collect()).collect())
            .collect()
    } else {
        vec![]
    };
    let collector = sw.w.gas.client.gas_collector();
    let named: Vec<Address> = {
        use soroban_sdk::TryFromVal;
        fn walk(v: &ScVal, out: &mut Vec<soroban_sdk::xdr::ScAddress>) {
            match v {
                ScVal::Address(a) => out.push(a.clone()),
                ScVal::Vec(Some(x)) => x.0.iter().for_each(|e| walk(e, out)),
                ScVal::Map(Some(m)) => m.0.iter().for_each(|e| {
                    walk(&e.key, out);
                    walk(&e.val, out)
                }),
                _ => {}
            }
        }
        let mut out = vec![];
        for a in args.iter() {
            if let Ok(sv) = ScVal::try_from_val(&env, &a) {
                walk(&sv, &mut out);
            }
        }
        out.iter().filter_map(|a| Address::try_from_val(&env, a).ok()).collect()
    };
    let ev0 = events_len(&env);
    env.mock_all_auths_allowing_non_root_auth();
    let r = env.try_invoke_contract::<Val, soroban_sdk::Error>(&target, &Symbol::new(&env, &ep.name), args);
    let ok = matches!(r, Ok(Ok(_)));
    let signers: Vec<Address> = env.auths().into_iter().map(|(a, _)| a).collect();
    let evs = events_since(&env, ev0);
    let after = observe();
    cx.count(if ok { "sweep_call_succeeded" } else { "sweep_call_refused" });
    if ok {
        cx.nontrivial();
    }
    if signers.iter().any(|s| sw.contracts.contains(s)) {
        // a contract "signed": only the mock can do that
        cx.count("sweep_discarded_contract_signature");
        return Ok(false);
    }
    let authorised = |a: &Address| signers.contains(a) || *a == target;
    // a role that passes to `new`: the holder of the governing power (just before this call) authorised this call, or an
    // earlier call of the sequence that named `new` (two-step hand-overs: proposed by the holder, accepted by the successor)
    let backed = |holder: &Address, new: &Address| -> bool { authorised(holder) || sw.history.borrow().iter().any(|(s, n)| s.contains(holder) && n.contains(new)) };
    let what = format!("{}::{}({:?})", ep.contract, ep.name, ep.types);
    let mut voided: Vec<Address> = vec![];
    match rule {
        Rule::Announce => {
            for e in evs.iter().filter(|e| e.0 == sw.w.gw.id && e.1.first() == Some(&sym("contract_called"))) {
                cx.count("sweep_announcements_seen");
                let named = e.1.get(1).cloned();
                let okk = signers.iter().chain(std::iter::once(&target)).any(|s| Some(scv(&env, s.clone())) == named)
                    // (a standing delegation, should the tree offer one: the named sender authorised, earlier in the sequence, a call
                    // naming somebody who signs now)
                    || sw.history.borrow().iter().any(|(s, n)| s.iter().any(|x| Some(scv(&env, x.clone())) == named) && n.iter().any(|d| signers.contains(d)));
                if !okk {
                    return Err(format!("{} made the gateway announce a call naming a sender ({:?}) that neither authorised it nor is the calling contract", what, named));
                }
            }
        }
        Rule::GasOut => {
            for (i, (b, a)) in before.gas_bal.iter().zip(after.gas_bal.iter()).enumerate() {
                if a < b {
                    cx.count("sweep_gas_custody_decreased");
                    if !authorised(&collector) {
                        return Err(format!("{} moved {} of token #{} out of the gas service without the gas collector's authorisation (signers: {})", what, b - a, i, signers.len()));
                    }
                }
            }
        }
        Rule::Roles => {
            for (i, (b, a)) in before.owners.iter().zip(after.owners.iter()).enumerate() {
                if a != b {
                    cx.count("sweep_owner_changed");
                    let okk = match (b, a) {
                        (Some(o), Some(n)) => backed(o, n),
                        (Some(o), None) => authorised(o),
                        _ => false,
                    };
                    if !okk {
                        return Err(format!("{} changed the owner of contract #{} without the authorisation of the owner at that moment (in this call, or in an earlier call naming the successor)", what, i));
                    }
                }
            }
            if before.gw_operator != after.gw_operator {
                cx.count("sweep_operator_changed");
                let okk = match (&before.gw_operator, &after.gw_operator) {
                    (Some(o), Some(n)) => backed(o, n),
                    (Some(o), None) => authorised(o),
                    _ => false,
                };
                if !okk {
                    return Err(format!("{} changed the gateway operator without the authorisation of the operator at that moment (in this call, or in an earlier call naming the successor)", what));
                }
            }
            if before.is_operator != after.is_operator {
                cx.count("sweep_operator_set_changed");
                let all: Vec<&Address> = sw.accounts.iter().chain(sw.contracts.iter()).collect();
                for (k, (b, a)) in before.is_operator.iter().zip(after.is_operator.iter()).enumerate() {
                    if b == a {
                        continue;
                    }
                    let okk = match &before.owners[2] {
                        Some(o) if *a => backed(o, all[k]),
                        Some(o) => authorised(o) || authorised(all[k]) || sw.history.borrow().iter().any(|(s, _)| s.contains(all[k])),
                        None => false,
                    };
                    if !okk {
                        return Err(format!("{} changed the operator set without the authorisation of its owner at that moment (in this call, or - for a new operator - in an earlier call naming it)", what));
                    }
                    if !*a {
                        // a removal voids whatever named the removed address before (and this call does not name it as a newcomer)
                        sw.history.borrow_mut().iter_mut().for_each(|h| h.1.retain(|x| x != all[k]));
                        voided.push(all[k].clone());
                    }
                }
            }
            if before.trusted != after.trusted {
                cx.count("sweep_trusted_chains_changed");
                if !before.owners[3].as_ref().map(|o| authorised(o)).unwrap_or(false) {
                    return Err(format!("{} changed the trusted chains without the token service owner's authorisation", what));
                }
            }
            for (i, (b, a)) in before.minters.iter().zip(after.minters.iter()).enumerate() {
                if a != b {
                    cx.count("sweep_minters_changed");
                    let owner = before.owners[4 + i % 2].clone();
                    let all: Vec<&Address> = sw.accounts.iter().chain(sw.contracts.iter()).collect();
                    let who = all[i / 2];
                    // (a minter may also hand its own right on, should the tree offer that: then a minter of that moment must
                    // have authorised this call, or an earlier one naming the new minter)
                    let current_minters: Vec<&Address> = (0..all.len()).filter(|k| before.minters[2 * k + i % 2]).map(|k| all[k]).collect();
                    let okk = if *a {
                        owner.as_ref().map(|o| backed(o, who)).unwrap_or(false) || current_minters.iter().any(|m| backed(m, who))
                    } else {
                        // (giving a right up: the owner takes it, or its holder lets go of it - in this call or by an earlier
                        // one of the sequence, e.g. the proposal of a hand-over)
                        owner.as_ref().map(|o| authorised(o)).unwrap_or(false) || authorised(who) || sw.history.borrow().iter().any(|(s, _)| s.contains(who))
                    };
                    if !okk {
                        return Err(format!("{} changed the minters of token {} without the authorisation of the token's owner (or, for a right handed on, of a minter) at that moment", what, i % 2 + 1));
                    }
                    if !*a {
                        sw.history.borrow_mut().iter_mut().for_each(|h| h.1.retain(|x| x != who));
                        voided.push(who.clone());
                    }
                }
            }
        }
        _ => {}
    }
    // the gas collector's role passes on only with the authorisation of the collector (or of the service's owner) of that moment
    if matches!(rule, Rule::Roles | Rule::GasOut) && before.collector != after.collector {
        cx.count("sweep_gas_collector_changed");
        let okk = match (&before.collector, &after.collector) {
            (Some(c), Some(n)) => backed(c, n) || before.owners[1].as_ref().map(|o| backed(o, n)).unwrap_or(false),
            _ => false,
        };
        if !okk {
            return Err(format!("{} changed the gas collector without the authorisation of the collector or the owner at that moment (in this call, or in an earlier call naming the successor)", what));
        }
    }
    // upgrade and migrate are administrative entry points (C06) as well as C15's subject
    if matches!(rule, Rule::Code | Rule::Roles) {
        for (i, c) in owned.iter().enumerate() {
            let migrated = evs.iter().any(|e| e.0 == *c && e.1.first() == Some(&sym("upgraded")));
            if before.flags[i] != after.flags[i] || migrated {
                cx.count("sweep_code_or_migration_state_changed");
                if !before.owners[i].as_ref().map(|o| authorised(o)).unwrap_or(false) {
                    return Err(format!("{} replaced the code of / migrated contract #{} without its owner's authorisation", what, i));
                }
            }
        }
    }
    match rule {
        Rule::Proofless => {
            let gw_ev = |name: &str| evs.iter().any(|e| e.0 == sw.w.gw.id && e.1.first() == Some(&sym(name)));
            if after.epoch != before.epoch || gw_ev("signers_rotated") {
                // allowed only as the rotation somebody proved: the installed set is a candidate for which the set that was
                // newest just before this call signed a rotation (shown in this call or earlier in the sequence)
                let hash_at = |e: u64| sw.w.gw.client.try_signers_hash_by_epoch(&e).ok().and_then(|r| r.ok()).map(|h| h.to_array());
                let newest_before = hash_at(before.epoch);
                let installed = hash_at(after.epoch);
                let proved = after.epoch == before.epoch + 1
                    && sw.presented.borrow().iter().any(|(p, c)| Some(*p) == newest_before && Some(c.hash()) == installed);
                if !proved {
                    return Err(format!("{} installed a signer set (epoch {} -> {}) for which the set that was newest at that moment never signed a rotation", what, before.epoch, after.epoch));
                }
                let cand = sw.presented.borrow().iter().find(|(_, c)| Some(c.hash()) == installed).map(|(_, c)| c.clone());
                if let Some(c) = cand {
                    *sw.latest.borrow_mut() = c;
                }
                cx.count("sweep_proved_rotation");
            }
            // fresh (chain, id) pairs the generators can name
            let newly = ["msg-3", "msg-4"].iter().any(|i| {
                [TRUSTED, "avalanche", "stellar", "fresh-chain"].iter().any(|c| {
                    sw.accounts.iter().chain(sw.contracts.iter()).any(|d| sw.w.gw.client.is_message_approved(&sstr(&env, c), &sstr(&env, i), &sstr(&env, "hub-address"), d, &BytesN::from_array(&env, &[0; 32])))
                })
            });
            if newly || gw_ev("message_approved") || before.approved.iter().zip(after.approved.iter()).any(|(b, a)| !*b && *a) {
                return Err(format!("{} approved a message although no valid proof for an approval exists", what));
            }
            // a signer set that had left the retention window stays outside (no rotation can have happened here)
            for (k, old) in sw.old_sets.iter().enumerate() {
                let dh = h32("sweep-retention-probe", k as u64);
                let proof = old.proof(&env, &digest(&sw.w.gw.domain, &old.hash(), &dh), old.full_mask());
                env.set_auths(&[]);
                if matches!(sw.w.gw.client.try_validate_proof(&BytesN::from_array(&env, &dh), &proof), Ok(Ok(_))) {
                    return Err(format!("after {} the gateway honours again the signer set installed at epoch {} (current epoch {}, which had left the retention window before)", what, k + 1, after.epoch));
                }
            }
        }
        Rule::Consume => {
            for (k, (b, a)) in before.executed.iter().zip(after.executed.iter()).enumerate() {
                if *b && !*a {
                    return Err(format!("{} made message {:?}, which its destination had consumed, count as not executed again (it can be approved and delivered a second time)", what, (sw.approved[k].0, sw.approved[k].1)));
                }
                if !*b && *a {
                    cx.count("sweep_message_consumed");
                    if !authorised(&sw.approved[k].2) {
                        return Err(format!("{} marked message {:?} executed without the destination it names having called or authorised", what, (sw.approved[k].0, sw.approved[k].1)));
                    }
                }
            }
        }
        Rule::Spend => {
            let na = sw.accounts.len();
            for (ti, (bt, at)) in before.bal.iter().zip(after.bal.iter()).enumerate() {
                for h in 0..na {
                    if at[h] < bt[h] {
                        cx.count("sweep_account_balance_decreased");
                        let holder = &sw.accounts[h];
                        let by_allowance = (0..na).any(|sp| allowance_before[ti][h][sp] > 0 && signers.contains(&sw.accounts[sp]));
                        if !signers.contains(holder) && !by_allowance {
                            return Err(format!("{} took {} of token #{} from an account that neither authorised it nor granted an allowance to a signer", what, bt[h] - at[h], ti));
                        }
                    }
                }
            }
        }
        Rule::Operators => {
            if after.gas2_bal < before.gas2_bal {
                cx.count("sweep_operators_power_used");
                let by_operator = sw.accounts.iter().enumerate().any(|(i, a)| before.is_operator[i] && signers.contains(a));
                if !by_operator {
                    return Err(format!("{} made the operators contract pay out of the gas service it collects for, without a current operator's authorisation", what));
                }
            }
        }
        Rule::Value => {
            let its_idx = sw.accounts.len() + 3;
            if after.bal[0][its_idx] < before.bal[0][its_idx] {
                return Err(format!("{} released {} of the locked canonical token although no inbound message was approved", what, before.bal[0][its_idx] - after.bal[0][its_idx]));
            }
            // supply of the service-deployed token: only the designated minter account could add to it here
            let sum = |o: &Obs| -> i128 { o.bal[1].iter().fold(0i128, |a, b| a.saturating_add(*b)) };
            if sum(&after) > sum(&before) {
                cx.count("sweep_deployed_token_minted");
                if !signers.contains(&sw.minter) {
                    return Err(format!("{} increased the supply of the service-deployed token without its minter and without an approved inbound message", what));
                }
            }
        }
        Rule::Redeliver => {
            let payload = b"delivered-once";
            let m = axelar_gateway::types::Message {
                source_chain: sstr(&env, TRUSTED),
                message_id: sstr(&env, "msg-7"),
                source_address: sstr(&env, "hub-address"),
                contract_address: sw.example.clone(),
                payload_hash: BytesN::from_array(&env, &crate::oracle::keccak256(payload)),
            };
            // anybody can submit the signed approval again
            let _ = sw.w.gw.approve(&env, &sw.w.set, &[m]);
            env.set_auths(&[]);
            let again = example::ExampleClient::new(&env, &sw.example).try_execute(&sstr(&env, TRUSTED), &sstr(&env, "msg-7"), &sstr(&env, "hub-address"), &Bytes::from_slice(&env, payload));
            if matches!(again, Ok(Ok(()))) {
                return Err(format!("after {} a message the example app had already acted on was delivered to it a second time (its approval re-submitted to the gateway in between)", what));
            }
        }
        _ => {}
    }
    let _ = ScVal::Void;
    if ok {
        let named: Vec<Address> = named.into_iter().filter(|x| !voided.contains(x)).collect();
        sw.history.borrow_mut().push((signers.clone(), named));
    }
    Ok(true)
}

fn scan_cached() -> Vec<Ep> {
    thread_local! {
        static EPS: std::cell::RefCell<Option<Vec<Ep>>> = const { std::cell::RefCell::new(None) };
    }
    EPS.with(|n| {
        let mut n = n.borrow_mut();
        if n.is_none() {
            *n = Some(scan_repo());
        }
        n.clone().unwrap()
    })
}

/// A contract that answers *every* function name (with void): lets a forwarded call succeed under any name, e.g. one
/// that equals a storage key of the forwarding contract.
pub struct AnyFunction;

impl soroban_sdk::testutils::ContractFunctionSet for AnyFunction {
    fn call(&self, _func: &str, _env: soroban_sdk::Env, _args: &[Val]) -> Option<Val> {
        Some(Val::VOID.into())
    }
}

/// variant names of every `enum DataKey` (and of the shared interfaces' key enums) in the tree under test
pub fn scan_key_names() -> Vec<String> {
    thread_local! {
        static NAMES: std::cell::RefCell<Option<Vec<String>>> = const { std::cell::RefCell::new(None) };
    }
    NAMES.with(|n| {
        let mut n = n.borrow_mut();
        if n.is_none() {
            let mut files = vec![];
            rs_files(&repo_root().join("contracts"), &mut files);
            rs_files(&repo_root().join("packages/axelar-soroban-std/src"), &mut files);
            let mut v: Vec<String> = vec![];
            for f in &files {
                if f.components().any(|x| x.as_os_str() == "tests" || x.as_os_str() == "target") {
                    continue;
                }
                let Ok(src) = std::fs::read_to_string(f) else { continue };
                let toks = tokenize(&strip_comments(&src));
                let mut i = 0;
                while i + 2 < toks.len() {
                    if toks[i] == Tok::Id("enum".into()) && matches!(&toks[i + 1], Tok::Id(n) if n.ends_with("Key")) && toks[i + 2] == Tok::P('{') {
                        let mut depth = 1;
                        let mut j = i + 3;
                        let mut at_start = true;
                        while j < toks.len() && depth > 0 {
                            match &toks[j] {
                                Tok::P('{') | Tok::P('(') => depth += 1,
                                Tok::P('}') | Tok::P(')') => depth -= 1,
                                Tok::P(',') if depth == 1 => at_start = true,
                                Tok::P('#') | Tok::P('[') | Tok::P(']') => {}
                                Tok::Id(name) if depth == 1 && at_start => {
                                    if name.chars().next().map(|c| c.is_uppercase()).unwrap_or(false) && name.len() <= 32 {
                                        v.push(name.clone());
                                    }
                                    at_start = false;
                                }
                                _ => {}
                            }
                            j += 1;
                        }
                        i = j;
                    } else {
                        i += 1;
                    }
                }
            }
            v.sort();
            v.dedup();
            *n = Some(v);
        }
        n.clone().unwrap()
    })
}

fn scan_names() -> Vec<String> {
    thread_local! {
        static NAMES: std::cell::RefCell<Option<Vec<String>>> = const { std::cell::RefCell::new(None) };
    }
    NAMES.with(|n| {
        let mut n = n.borrow_mut();
        if n.is_none() {
            let mut v: Vec<String> = scan_repo().into_iter().map(|e| e.name).filter(|s| s.len() <= 32).collect();
            v.sort();
            v.dedup();
            *n = Some(v);
        }
        n.clone().unwrap()
    })
}
