//! C12 — token balances, allowances and supply follow the standard token rules.
//! History of token operations against a reference ledger (balances, allowances with expiry,
//! minters, owner, supply), full sweep after every step, standard token events compared.

use crate::engine::{Cx, Property, Tier};
use crate::ensure_p;
use crate::world::*;
use proptest::prelude::*;
#[allow(unused_imports)]
use crate::prop_oneof;
use serde::{Deserialize, Serialize};
use soroban_sdk::testutils::{Address as _, Ledger as _};
use soroban_sdk::xdr::ScVal;
use soroban_sdk::{Address, Env};
use std::collections::BTreeMap;

pub struct C12;

const N: usize = 4;

#[derive(Clone, Copy, Debug, Serialize, Deserialize, PartialEq, Eq)]
pub enum Amt {
    Zero,
    One,
    Neg,
    NegMin,
    Bal,
    BalPlus1,
    BalMinus1,
    Allow,
    AllowPlus1,
    AllowMinus1,
    Max,
    Small(u16),
    Big(u8),
}

#[derive(Clone, Copy, Debug, Serialize, Deserialize, PartialEq, Eq)]
pub enum Exp {
    Past,
    Now,
    Next,
    Plus(u16),
    Zero,
    /// beyond the host's maximum entry TTL: outcome not constrained (Either)
    Far,
    /// u32::MAX: likewise
    Max,
}

#[derive(Clone, Debug, Serialize, Deserialize, PartialEq, Eq)]
pub enum Op {
    Mint { to: u8, amt: Amt },
    MintFrom { minter: u8, to: u8, amt: Amt },
    Transfer { from: u8, to: u8, amt: Amt },
    Approve { from: u8, spender: u8, amt: Amt, exp: Exp },
    TransferFrom { spender: u8, from: u8, to: u8, amt: Amt },
    Burn { from: u8, amt: Amt },
    BurnFrom { spender: u8, from: u8, amt: Amt },
    AddMinter { who: u8 },
    RemoveMinter { who: u8 },
    TransferOwnership { to: u8, via_set_admin: bool },
    Advance(u8),
    /// the owner upgrades the token and completes the migration: balances, allowances, minters and supply are carried over
    UpgradeAndMigrate,
    /// the administrator uses the standard admin interface's `set_authorized` (a stub at the pinned commit; a tree may
    /// implement it): never moves value; holders it de-authorises are afterwards undecided for debits and credits
    SetAuthorized { id: u8, authorize: bool },
    /// the administrator uses the standard admin interface's `clawback` (a stub at the pinned commit; a tree may
    /// implement it): if accepted it is a burn of exactly that non-negative amount from that holder
    Clawback { from: u8, amt: Amt },
}

#[derive(Clone, Debug, Serialize, Deserialize)]
pub struct Case {
    pub start_seq: u16,
    pub initial_minter: Option<u8>,
    pub ops: Vec<Op>,
    /// entry-point sweep case (see sweep.rs); the other fields are ignored
    #[serde(default)]
    pub sweep: Option<crate::sweep::SweepCase>,
}

fn idx() -> impl Strategy<Value = u8> {
    0u8..N as u8
}

fn amt() -> impl Strategy<Value = Amt> {
    prop_oneof![
        1 => Just(Amt::Zero),
        2 => Just(Amt::One),
        1 => Just(Amt::Neg),
        1 => Just(Amt::NegMin),
        3 => Just(Amt::Bal),
        2 => Just(Amt::BalPlus1),
        1 => Just(Amt::BalMinus1),
        3 => Just(Amt::Allow),
        2 => Just(Amt::AllowPlus1),
        1 => Just(Amt::AllowMinus1),
        1 => Just(Amt::Max),
        4 => (1u16..1000).prop_map(Amt::Small),
        1 => (0u8..4).prop_map(Amt::Big),
    ]
}

fn exp() -> impl Strategy<Value = Exp> {
    prop_oneof![
        2 => Just(Exp::Past),
        3 => Just(Exp::Now),
        3 => Just(Exp::Next),
        4 => (2u16..80).prop_map(Exp::Plus),
        1 => Just(Exp::Zero),
        1 => Just(Exp::Far),
        1 => Just(Exp::Max),
    ]
}

fn op() -> impl Strategy<Value = Op> {
    prop_oneof![
        4 => (idx(), amt()).prop_map(|(to, amt)| Op::Mint { to, amt }),
        3 => (idx(), idx(), amt()).prop_map(|(minter, to, amt)| Op::MintFrom { minter, to, amt }),
        4 => (idx(), idx(), amt()).prop_map(|(from, to, amt)| Op::Transfer { from, to, amt }),
        5 => (idx(), idx(), amt(), exp()).prop_map(|(from, spender, amt, exp)| Op::Approve { from, spender, amt, exp }),
        5 => (idx(), idx(), idx(), amt()).prop_map(|(spender, from, to, amt)| Op::TransferFrom { spender, from, to, amt }),
        2 => (idx(), amt()).prop_map(|(from, amt)| Op::Burn { from, amt }),
        3 => (idx(), idx(), amt()).prop_map(|(spender, from, amt)| Op::BurnFrom { spender, from, amt }),
        1 => idx().prop_map(|who| Op::AddMinter { who }),
        1 => idx().prop_map(|who| Op::RemoveMinter { who }),
        1 => (idx(), any::<bool>()).prop_map(|(to, via_set_admin)| Op::TransferOwnership { to, via_set_admin }),
        4 => (0u8..60).prop_map(Op::Advance),
        1 => Just(Op::UpgradeAndMigrate),
        1 => (idx(), prop_oneof![3 => Just(false), 1 => Just(true)]).prop_map(|(id, authorize)| Op::SetAuthorized { id, authorize }),
        1 => (idx(), amt()).prop_map(|(from, amt)| Op::Clawback { from, amt }),
    ]
}

fn alias_all(o: Op) -> Op {
    match o {
        Op::MintFrom { minter, amt, .. } => Op::MintFrom { minter, to: minter, amt },
        Op::Transfer { from, amt, .. } => Op::Transfer { from, to: from, amt },
        Op::Approve { from, amt, exp, .. } => Op::Approve { from, spender: from, amt, exp },
        Op::TransferFrom { spender, amt, .. } => Op::TransferFrom { spender, from: spender, to: spender, amt },
        Op::BurnFrom { spender, amt, .. } => Op::BurnFrom { spender, from: spender, amt },
        other => other,
    }
}

struct Model {
    bal: [i128; N],
    allow: BTreeMap<(u8, u8), (i128, u32)>,
    minters: [bool; N],
    owner: u8,
    supply: u128, // mod 2^128
    seq: u32,
}

impl Model {
    fn usable(&self, from: u8, spender: u8) -> i128 {
        match self.allow.get(&(from, spender)) {
            Some((a, e)) if *e >= self.seq => *a,
            _ => 0,
        }
    }
    fn resolve(&self, a: Amt, from: u8, spender: u8) -> i128 {
        let bal = self.bal[from as usize];
        let al = self.usable(from, spender);
        match a {
            Amt::Zero => 0,
            Amt::One => 1,
            Amt::Neg => -1,
            Amt::NegMin => i128::MIN,
            Amt::Bal => bal,
            Amt::BalPlus1 => bal.saturating_add(1),
            Amt::BalMinus1 => bal - 1,
            Amt::Allow => al,
            Amt::AllowPlus1 => al.saturating_add(1),
            Amt::AllowMinus1 => al - 1,
            Amt::Max => i128::MAX,
            Amt::Small(v) => v as i128,
            Amt::Big(k) => (i128::MAX >> 1) + k as i128,
        }
    }
}

#[derive(PartialEq, Eq, Debug, Clone, Copy)]
enum Expect {
    Ok,
    Fail,
    Either,
}

fn sc_i128(env: &Env, v: i128) -> ScVal {
    scv(env, v)
}

impl Property for C12 {
    type Case = Case;
    fn id(&self) -> &'static str {
        "C12"
    }
    fn rule(&self) -> &'static str {
        "proptest histories (<=40 quick / <=70 thorough ops) of mint, mint_from, transfer, approve, transfer_from, burn, burn_from, minter/owner changes and ledger advancement and the standard admin interface's set_authorized / clawback (stubs at the pinned commit: acceptance undecided; an accepted set_authorized moves nothing, an accepted clawback burns exactly the stated non-negative amount and never more than the balance; holders a tree de-authorises are undecided for debits and credits afterwards) on a natively registered InterchainToken over 4 accounts, amounts drawn relative to the model state (0, +-1, balance, balance+-1, allowance, allowance+-1, i128::MAX, negative); oracle = reference ledger, sweep of all balances/allowances and sum-of-balances after every step, standard token events compared. non-trivial = history in which an allowance is used at exactly its expiration ledger or one after, or an amount equal to balance/allowance +-1 is used; distinct by Debug hash of the case"
    }
    fn cases(&self, tier: Tier) -> u64 {
        tier.pick(5000, 75000)
    }
    fn strategy(&self, tier: Tier) -> BoxedStrategy<Case> {
        let max = tier.pick(40usize, 70usize);
        // one op in ten has all its account roles aliased to one account (from == to == spender)
        let aliased_op = (op(), 0u8..10).prop_map(|(o, r)| if r == 0 { alias_all(o) } else { o });
        let direct = (0u16..300, crate::engine::opt_of(idx()), proptest::collection::vec(aliased_op, 0..max), crate::engine::repeats())
            .prop_map(|(start_seq, initial_minter, ops, reps)| Case { sweep: None, start_seq, initial_minter, ops: crate::engine::with_repeats(ops, &reps) });
        let direct = direct.boxed();
        // a fifth of the random cases: entry-point sweep with the role rules (who may mint is a role: it changes hands
        // only with the authorisation of the token's owner or of a minter of that moment)
        match crate::sweep::strategy(crate::sweep::Rule::Roles) {
            Some(sw) => prop_oneof![4 => direct, 1 => sw.prop_map(|s| Case { sweep: Some(s), start_seq: 0, initial_minter: None, ops: vec![] })].boxed(),
            None => direct,
        }
    }
    fn fixed_cases(&self, _tier: Tier) -> Vec<Case> {
        let mut v: Vec<Case> = crate::sweep::fixed_cases(1500).into_iter().filter(|s| s.ep.contract == "interchain-token").map(|s| Case { sweep: Some(s), start_seq: 0, initial_minter: None, ops: vec![] }).collect();
        v.extend(vec![
            // ownership transfer event content
            Case { sweep: None, start_seq: 10, initial_minter: None, ops: vec![Op::TransferOwnership { to: 1, via_set_admin: false }] },
            Case { sweep: None, start_seq: 10, initial_minter: None, ops: vec![Op::TransferOwnership { to: 2, via_set_admin: true }] },
            // allowance used exactly at its expiration ledger, then one ledger later
            Case {
                sweep: None,
                start_seq: 5,
                initial_minter: None,
                ops: vec![
                    Op::Mint { to: 1, amt: Amt::Small(100) },
                    Op::Approve { from: 1, spender: 2, amt: Amt::Small(50), exp: Exp::Plus(3) },
                    Op::Advance(3),
                    Op::TransferFrom { spender: 2, from: 1, to: 3, amt: Amt::Small(10) },
                    Op::Advance(1),
                    Op::TransferFrom { spender: 2, from: 1, to: 3, amt: Amt::Small(10) },
                    Op::BurnFrom { spender: 2, from: 1, amt: Amt::One },
                ],
            },
            // an unlimited allowance is an allowance: every delegated spend reduces it by exactly the amount spent
            Case {
                sweep: None,
                start_seq: 7,
                initial_minter: None,
                ops: vec![
                    Op::Mint { to: 1, amt: Amt::Small(100) },
                    Op::Approve { from: 1, spender: 2, amt: Amt::Max, exp: Exp::Plus(50) },
                    Op::TransferFrom { spender: 2, from: 1, to: 3, amt: Amt::Small(10) },
                    Op::BurnFrom { spender: 2, from: 1, amt: Amt::One },
                ],
            },
            // approval with an already expired ledger
            Case {
                sweep: None,
                start_seq: 20,
                initial_minter: None,
                ops: vec![Op::Approve { from: 0, spender: 1, amt: Amt::One, exp: Exp::Past }, Op::Approve { from: 0, spender: 1, amt: Amt::Zero, exp: Exp::Past }],
            },
        ]);
        v
    }

    fn run(&self, case: &Case, cx: &mut Cx) -> Result<(), String> {
        if let Some(sw) = &case.sweep {
            return crate::sweep::run(sw, cx, crate::sweep::Rule::Roles);
        }
        let env = new_env();
        env.mock_all_auths();
        // (two thirds of the histories start near a live network's ledger sequence, one third near zero)
        let seq_base: u32 = if case.start_seq % 3 == 0 { 0 } else { 51_000_000 };
        env.ledger().set_sequence_number(seq_base + case.start_seq as u32 + 1);
        let mut accts: Vec<Address> = (0..N).map(|_| Address::generate(&env)).collect();
        // the last holder is the account-kind address carrying the same 32 bytes as the second (contract-kind) one:
        // two different holders whose balances, allowances and roles must never be confused
        let twin = kind_twin(&env, &accts[1]);
        *accts.last_mut().unwrap() = twin;
        let owner0 = 0u8;
        let token = register_native_token(
            &env,
            &accts[owner0 as usize],
            case.initial_minter.map(|i| accts[i as usize].clone()),
            h32("c12-token", 0),
            "Token",
            "TKN",
            7,
        );
        let mut m = Model {
            bal: [0; N],
            allow: BTreeMap::new(),
            minters: [false; N],
            owner: owner0,
            supply: 0,
            seq: seq_base + case.start_seq as u32 + 1,
        };
        m.minters[owner0 as usize] = true;
        if let Some(i) = case.initial_minter {
            m.minters[i as usize] = true;
        }
        let mut advanced: u32 = 0;
        let mut deauthorised = [false; N];
        let mut boundary = false;
        let mut edge_amount = false;

        for (step, op) in case.ops.iter().enumerate() {
            let before_snap = snapshot(&env);
            let ev0 = events_len(&env);
            // (expectation, standard events expected on success, closure applying effects)
            let mut expected_events: Vec<(Vec<ScVal>, ScVal)> = vec![];
            let a = |i: u8| accts[i as usize].clone();
            let mut expect: Expect;
            let ok: bool;
            let mut admin_extension = false;
            match op {
                Op::UpgradeAndMigrate => {
                    upgrade_and_migrate(&env, &token.address).map_err(|e| format!("step {}: {}", step, e))?;
                    env.mock_all_auths();
                    cx.label("upgrade_and_migration_in_history");
                    continue;
                }
                Op::Advance(n) => {
                    if advanced + *n as u32 > 3500 {
                        continue;
                    }
                    advanced += *n as u32;
                    m.seq += *n as u32;
                    env.ledger().set_sequence_number(m.seq);
                    continue;
                }
                Op::Mint { to, amt } => {
                    let v = m.resolve(*amt, *to, *to);
                    let owner = m.owner;
                    let fits = v >= 0 && m.bal[*to as usize].checked_add(v).is_some();
                    expect = if m.minters[owner as usize] && fits { Expect::Ok } else { Expect::Fail };
                    ok = token.try_mint(&a(*to), &v).map(|r| r.is_ok()).unwrap_or(false);
                    if ok {
                        m.bal[*to as usize] = m.bal[*to as usize].wrapping_add(v);
                        m.supply = m.supply.wrapping_add(v as u128);
                        expected_events.push((vec![sym("mint"), scv(&env, a(owner)), scv(&env, a(*to))], sc_i128(&env, v)));
                    }
                }
                Op::MintFrom { minter, to, amt } => {
                    let v = m.resolve(*amt, *to, *to);
                    let fits = v >= 0 && m.bal[*to as usize].checked_add(v).is_some();
                    expect = if m.minters[*minter as usize] && fits { Expect::Ok } else { Expect::Fail };
                    if !m.minters[*minter as usize] && fits {
                        cx.label("mint_by_non_minter");
                    }
                    ok = token.try_mint_from(&a(*minter), &a(*to), &v).map(|r| r.is_ok()).unwrap_or(false);
                    if ok {
                        m.bal[*to as usize] = m.bal[*to as usize].wrapping_add(v);
                        m.supply = m.supply.wrapping_add(v as u128);
                        expected_events.push((vec![sym("mint"), scv(&env, a(*minter)), scv(&env, a(*to))], sc_i128(&env, v)));
                    }
                }
                Op::Transfer { from, to, amt } => {
                    let v = m.resolve(*amt, *from, *to);
                    edge_amount |= matches!(amt, Amt::BalPlus1 | Amt::BalMinus1) && m.bal[*from as usize] > 0;
                    let fits = v >= 0
                        && m.bal[*from as usize] >= v
                        && (from == to || m.bal[*to as usize].checked_add(v).is_some());
                    expect = if fits { Expect::Ok } else { Expect::Fail };
                    ok = token.try_transfer(&a(*from), &a(*to), &v).map(|r| r.is_ok()).unwrap_or(false);
                    if ok {
                        m.bal[*from as usize] = m.bal[*from as usize].wrapping_sub(v);
                        m.bal[*to as usize] = m.bal[*to as usize].wrapping_add(v);
                        expected_events.push((vec![sym("transfer"), scv(&env, a(*from)), scv(&env, a(*to))], sc_i128(&env, v)));
                    }
                }
                Op::Approve { from, spender, amt, exp } => {
                    let v = m.resolve(*amt, *from, *spender);
                    let e: u32 = match exp {
                        Exp::Past => m.seq.saturating_sub(1),
                        Exp::Now => m.seq,
                        Exp::Next => m.seq + 1,
                        Exp::Plus(k) => m.seq + *k as u32,
                        Exp::Zero => 0,
                        Exp::Far => m.seq + 7_000_000,
                        Exp::Max => u32::MAX,
                    };
                    expect = if v < 0 {
                        Expect::Fail
                    } else if v > 0 && e < m.seq {
                        // granting an allowance that is already expired: the statement only requires that it is
                        // worthless, not that the grant is refused (today it is refused)
                        cx.label("approve_already_expired");
                        Expect::Either
                    } else if matches!(exp, Exp::Far | Exp::Max) && v > 0 {
                        Expect::Either
                    } else {
                        Expect::Ok
                    };
                    ok = token.try_approve(&a(*from), &a(*spender), &v, &e).map(|r| r.is_ok()).unwrap_or(false);
                    if ok {
                        m.allow.insert((*from, *spender), (v, e));
                        expected_events.push((
                            vec![sym("approve"), scv(&env, a(*from)), scv(&env, a(*spender))],
                            scv(&env, (v, e)),
                        ));
                    }
                }
                Op::TransferFrom { spender, from, to, amt } => {
                    let v = m.resolve(*amt, *from, *spender);
                    let usable = m.usable(*from, *spender);
                    if let Some((al, e)) = m.allow.get(&(*from, *spender)) {
                        if *al > 0 && v > 0 && (*e == m.seq || e.checked_add(1) == Some(m.seq)) {
                            boundary = true;
                            cx.label(if *e == m.seq { "delegated_at_expiration_ledger" } else { "delegated_one_after_expiration" });
                        }
                    }
                    edge_amount |= matches!(amt, Amt::AllowPlus1 | Amt::AllowMinus1 | Amt::BalPlus1) && v > 0;
                    let fits = v >= 0
                        && usable >= v
                        && m.bal[*from as usize] >= v
                        && (from == to || m.bal[*to as usize].checked_add(v).is_some());
                    expect = if fits { Expect::Ok } else { Expect::Fail };
                    ok = token.try_transfer_from(&a(*spender), &a(*from), &a(*to), &v).map(|r| r.is_ok()).unwrap_or(false);
                    if ok {
                        if v > 0 {
                            if let Some(x) = m.allow.get_mut(&(*from, *spender)) {
                                x.0 = x.0.wrapping_sub(v);
                            }
                        }
                        m.bal[*from as usize] = m.bal[*from as usize].wrapping_sub(v);
                        m.bal[*to as usize] = m.bal[*to as usize].wrapping_add(v);
                        expected_events.push((vec![sym("transfer"), scv(&env, a(*from)), scv(&env, a(*to))], sc_i128(&env, v)));
                    }
                }
                Op::Burn { from, amt } => {
                    let v = m.resolve(*amt, *from, *from);
                    edge_amount |= matches!(amt, Amt::BalPlus1 | Amt::BalMinus1) && m.bal[*from as usize] > 0;
                    let fits = v >= 0 && m.bal[*from as usize] >= v;
                    expect = if fits { Expect::Ok } else { Expect::Fail };
                    ok = token.try_burn(&a(*from), &v).map(|r| r.is_ok()).unwrap_or(false);
                    if ok {
                        m.bal[*from as usize] = m.bal[*from as usize].wrapping_sub(v);
                        m.supply = m.supply.wrapping_sub(v as u128);
                        expected_events.push((vec![sym("burn"), scv(&env, a(*from))], sc_i128(&env, v)));
                    }
                }
                Op::BurnFrom { spender, from, amt } => {
                    let v = m.resolve(*amt, *from, *spender);
                    let usable = m.usable(*from, *spender);
                    if let Some((al, e)) = m.allow.get(&(*from, *spender)) {
                        if *al > 0 && v > 0 && (*e == m.seq || e.checked_add(1) == Some(m.seq)) {
                            boundary = true;
                            cx.label(if *e == m.seq { "delegated_at_expiration_ledger" } else { "delegated_one_after_expiration" });
                        }
                    }
                    edge_amount |= matches!(amt, Amt::AllowPlus1 | Amt::AllowMinus1 | Amt::BalPlus1) && v > 0;
                    let fits = v >= 0 && usable >= v && m.bal[*from as usize] >= v;
                    expect = if fits { Expect::Ok } else { Expect::Fail };
                    ok = token.try_burn_from(&a(*spender), &a(*from), &v).map(|r| r.is_ok()).unwrap_or(false);
                    if ok {
                        if v > 0 {
                            if let Some(x) = m.allow.get_mut(&(*from, *spender)) {
                                x.0 = x.0.wrapping_sub(v);
                            }
                        }
                        m.bal[*from as usize] = m.bal[*from as usize].wrapping_sub(v);
                        m.supply = m.supply.wrapping_sub(v as u128);
                        expected_events.push((vec![sym("burn"), scv(&env, a(*from))], sc_i128(&env, v)));
                    }
                }
                Op::AddMinter { who } => {
                    expect = Expect::Ok;
                    ok = token.try_add_minter(&a(*who)).map(|r| r.is_ok()).unwrap_or(false);
                    if ok {
                        m.minters[*who as usize] = true;
                    }
                }
                Op::RemoveMinter { who } => {
                    expect = Expect::Ok;
                    ok = token.try_remove_minter(&a(*who)).map(|r| r.is_ok()).unwrap_or(false);
                    if ok {
                        m.minters[*who as usize] = false;
                    }
                }
                Op::SetAuthorized { id, authorize } => {
                    admin_extension = true;
                    expect = Expect::Either;
                    ok = token.try_set_authorized(&a(*id), authorize).map(|r| r.is_ok()).unwrap_or(false);
                    if ok {
                        deauthorised[*id as usize] = !*authorize;
                        cx.label("set_authorized_accepted");
                    }
                }
                Op::Clawback { from, amt } => {
                    admin_extension = true;
                    let v = m.resolve(*amt, *from, *from);
                    // negative amounts are rejected; no balance ever becomes negative
                    expect = if v < 0 || v > m.bal[*from as usize] { Expect::Fail } else { Expect::Either };
                    ok = token.try_clawback(&a(*from), &v).map(|r| r.is_ok()).unwrap_or(false);
                    if ok {
                        m.bal[*from as usize] = m.bal[*from as usize].wrapping_sub(v);
                        m.supply = m.supply.wrapping_sub(v as u128);
                        cx.label("clawback_accepted");
                    }
                }
                Op::TransferOwnership { to, via_set_admin } => {
                    expect = Expect::Ok;
                    let prev = m.owner;
                    ok = if *via_set_admin {
                        token.try_set_admin(&a(*to)).map(|r| r.is_ok()).unwrap_or(false)
                    } else {
                        token.try_transfer_ownership(&a(*to)).map(|r| r.is_ok()).unwrap_or(false)
                    };
                    if ok {
                        m.owner = *to;
                        cx.label("admin_change");
                        expected_events.push((vec![sym("set_admin"), scv(&env, a(prev))], scv(&env, a(*to))));
                    }
                }
            }

            // a holder the administrator de-authorised (on a tree that implements it) may be refused debits and credits
            let parties: Vec<u8> = match op {
                Op::Mint { to, .. } => vec![*to],
                Op::MintFrom { minter, to, .. } => vec![*minter, *to],
                Op::Transfer { from, to, .. } => vec![*from, *to],
                Op::Approve { from, spender, .. } => vec![*from, *spender],
                Op::TransferFrom { spender, from, to, .. } => vec![*spender, *from, *to],
                Op::Burn { from, .. } => vec![*from],
                Op::BurnFrom { spender, from, .. } => vec![*spender, *from],
                _ => vec![],
            };
            if expect == Expect::Ok && parties.iter().any(|p| deauthorised[*p as usize]) {
                expect = Expect::Either;
            }
            match expect {
                Expect::Ok => {
                    cx.count("must_succeed");
                    ensure_p!(ok, "step {} {:?}: the reference ledger says this must succeed, the token refused it", step, op);
                }
                Expect::Fail => {
                    cx.count("must_fail");
                    ensure_p!(!ok, "step {} {:?}: the reference ledger says this must be rejected, the token accepted it", step, op);
                }
                Expect::Either => cx.count("either"),
            }
            if !ok {
                ensure_p!(snapshot(&env) == before_snap, "step {} {:?}: rejected call changed the ledger", step, op);
                ensure_p!(events_len(&env) == ev0, "step {} {:?}: rejected call emitted events", step, op);
            } else if !admin_extension {
                // standard token events of this call
                let std_names = ["transfer", "mint", "burn", "approve", "set_admin", "clawback", "set_authorized"];
                let got: Vec<(Vec<ScVal>, ScVal)> = events_since(&env, ev0)
                    .into_iter()
                    .filter(|(c, t, _)| *c == token.address && t.first().map(|x| std_names.iter().any(|n| *x == sym(n))).unwrap_or(false))
                    .map(|(_, t, d)| (t, d))
                    .collect();
                ensure_p!(
                    got == expected_events,
                    "step {} {:?}: standard token events differ: got {:?}, expected {:?}",
                    step,
                    op,
                    got,
                    expected_events
                );
            }
            // sweep
            let mut sum: u128 = 0;
            for i in 0..N {
                let b = token.balance(&accts[i]);
                ensure_p!(b == m.bal[i], "after step {} {:?}: balance[{}] = {} but reference says {}", step, op, i, b, m.bal[i]);
                ensure_p!(b >= 0, "negative balance");
                sum = sum.wrapping_add(b as u128);
                for j in 0..N {
                    let al = token.allowance(&accts[i], &accts[j]);
                    let want = m.usable(i as u8, j as u8);
                    ensure_p!(
                        al == want,
                        "after step {} {:?}: allowance[{}->{}] = {} but reference says {} (seq {})",
                        step,
                        op,
                        i,
                        j,
                        al,
                        want,
                        m.seq
                    );
                    ensure_p!(al >= 0, "negative allowance");
                }
                ensure_p!(
                    token.is_minter(&accts[i]) == m.minters[i],
                    "after step {} {:?}: is_minter[{}] differs from reference",
                    step,
                    op,
                    i
                );
            }
            ensure_p!(sum == m.supply, "after step {} {:?}: sum of balances {} != supply {}", step, op, sum, m.supply);
            ensure_p!(token.owner() == accts[m.owner as usize], "owner differs from reference after step {}", step);
            ensure_p!(token.admin() == accts[m.owner as usize], "admin() differs from the reference administrator after step {}", step);
        }
        if boundary || edge_amount {
            cx.nontrivial();
        }
        if edge_amount {
            cx.label("amount_at_balance_or_allowance_pm1");
        }
        Ok(())
    }
}
