//! C18 — remote token deployments announce the registered token's true id and metadata.

use crate::engine::{Cx, Property, Tier};
use crate::ensure_p;
use crate::itsw::*;
use crate::oracle::{keccak256, word_u64, AHub, AMsg};
use crate::probes::MetaToken;
use crate::world::*;
use axelar_soroban_std::types::Token;
use proptest::prelude::*;
#[allow(unused_imports)]
use crate::prop_oneof;
use serde::{Deserialize, Serialize};
use soroban_sdk::token::TokenClient;
use soroban_sdk::xdr::ScVal;
use soroban_sdk::{Address, BytesN};

pub struct C18;

const HUB_ADDR: &str = "axelar1hub";

#[derive(Clone, Copy, Debug, Serialize, Deserialize, PartialEq, Eq)]
pub enum Tok {
    /// deployed through the service (metadata class 0..4), remote deployment by (caller, salt)
    ItsDeployed(u8),
    /// Stellar asset contract registered as canonical
    Asset,
    /// harness token with given metadata registered as canonical: 0 ok, 1 multi-byte, 2 decimals 255,
    /// 3 empty name, 4 empty symbol, 5 decimals 256, 6..11 unusual but non-empty names (NUL padding, spaces, ...)
    Probe(u8),
    /// ITS-deployed token addressed through the canonical entry point (its address was never registered as canonical)
    ItsDeployedViaCanonical,
    /// the canonical id of a local asset was taken by a token deployed from a hub message *before* the asset was ever
    /// registered; the request names the asset: the id is registered, and what is registered under it is what gets announced
    CanonicalIdTakenByRemoteDeployment,
    /// harness token registered as canonical whose metadata getters start answering differently after their n-th read
    /// (n = k % 4 + 1, counted from the studied request on); what they answer then: k / 4 % 3 = 0 an empty name and
    /// symbol, 1 other valid metadata, 2 decimals 300. "The token's actual metadata" is then ambiguous, but whatever is
    /// announced must be what the token answered and must be representable
    Fickle(u8),
    /// never registered
    UnregisteredSalt,
    UnregisteredAsset,
}

#[derive(Clone, Copy, Debug, Serialize, Deserialize, PartialEq, Eq)]
pub enum Who {
    OriginalDeployer,
    OtherReusingSalt,
    /// the payer named in the request is the token service's own address (it holds enough of the gas token): whether
    /// the service may pay for itself is not decided by the statement, but an accepted request must move the payment
    TheServiceItself,
}

#[derive(Clone, Copy, Debug, Serialize, Deserialize, PartialEq, Eq)]
pub enum Dest {
    Trusted,
    NeverTrusted,
    Removed,
    HubItself,
    Empty,
    /// a trusted name in another letter case
    TrustedOtherCase,
    /// a trusted name with a trailing space
    TrustedTrailingSpace,
    /// a trusted name that contains upper-case letters: it must be announced exactly as it was trusted and requested
    TrustedMixedCase,
    /// the service's own chain name (never trusted as a destination): a request like any other toward an untrusted chain
    OwnChainName,
}

#[derive(Clone, Copy, Debug, Serialize, Deserialize, PartialEq, Eq)]
pub enum GasC {
    Zero,
    Negative,
    Affordable(u16),
    ExactBalance,
    BalancePlusOne,
}

#[derive(Clone, Debug, Serialize, Deserialize)]
pub struct Case {
    pub tok: Tok,
    pub who: Who,
    pub dest: Dest,
    pub gas: GasC,
    pub authorised: bool,
    /// (harness token only) the token was already deployed remotely once under other, valid metadata and
    /// was renamed afterwards: the announcement must carry the *current* metadata
    #[serde(default)]
    pub renamed_after_earlier_deployment: bool,
    /// the same token was already announced once, by its rightful requester, just before the studied request: 0 no, 1 to
    /// "ethereum", 2 to "Polygon-zkEVM" (so: to the same or to another chain than the studied request names), 3 to both
    #[serde(default)]
    pub announced_before: u8,
}

fn its_meta(k: u8) -> (Vec<u8>, Vec<u8>, u32) {
    match k % 5 {
        0 => (b"Token".to_vec(), b"TKN".to_vec(), 7),
        1 => ("Tökén 漢字 🚀".as_bytes().to_vec(), "€".as_bytes().to_vec(), 18),
        2 => (b"Zero".to_vec(), b"Z".to_vec(), 0),
        3 => (b"Max".to_vec(), b"M".to_vec(), 255),
        _ => (vec![b'x'; 33], vec![b'y'; 32], 6),
    }
}

fn probe_meta(k: u8) -> (Vec<u8>, Vec<u8>, u32, bool) {
    match k % 16 {
        12 => (b"native".to_vec(), b"native".to_vec(), 7, true),
        13 => (b"XLM".to_vec(), b"XLM".to_vec(), 7, true),
        14 => (b"USDC:GA5ZSEJYB37JRC5AVCIA5MOP4RHTM335X2KGX3IHOJAPP5RE34K4KZVN".to_vec(), b"USDC".to_vec(), 7, true),
        15 => (b"Stellar".to_vec(), b"native".to_vec(), 7, true),
        6 => (b"Pad\0\0".to_vec(), b"PD\0".to_vec(), 7, true),
        7 => (b" Spaced ".to_vec(), b" S ".to_vec(), 7, true),
        8 => (b"\0".to_vec(), b"\0".to_vec(), 7, true),
        9 => (b"line\nbreak\ttab".to_vec(), b"L\r".to_vec(), 7, true),
        10 => (vec![b'n'; 300], vec![b's'; 257], 7, true),
        11 => ("\u{feff}Bom".as_bytes().to_vec(), "\u{ff26}\u{ff37}".as_bytes().to_vec(), 7, true),
        0 => (b"Probe".to_vec(), b"PRB".to_vec(), 7, true),
        1 => ("Prøbe 漢".as_bytes().to_vec(), "¥".as_bytes().to_vec(), 0, true),
        2 => (b"P255".to_vec(), b"P".to_vec(), 255, true),
        3 => (vec![], b"S".to_vec(), 7, false),
        4 => (b"N".to_vec(), vec![], 7, false),
        _ => (b"P256".to_vec(), b"P".to_vec(), 256, false),
    }
}

fn tok() -> impl Strategy<Value = Tok> {
    prop_oneof![
        7 => (0u8..20).prop_map(Tok::ItsDeployed),
        3 => Just(Tok::Asset),
        8 => (0u8..16).prop_map(Tok::Probe),
        2 => (0u8..12).prop_map(Tok::Fickle),
        1 => Just(Tok::ItsDeployedViaCanonical),
        1 => Just(Tok::UnregisteredSalt),
        1 => Just(Tok::UnregisteredAsset),
        2 => Just(Tok::CanonicalIdTakenByRemoteDeployment),
    ]
}

impl Property for C18 {
    type Case = Case;
    fn id(&self) -> &'static str {
        "C18"
    }
    fn rule(&self) -> &'static str {
        "proptest single cases: token (ITS-deployed with 5 metadata classes and with nobody / the deployer / the other caller as designated local minter incl. multi-byte names, decimals 0/255, 32/33-byte strings; Stellar asset contract registered as canonical; harness token with metadata ok / multi-byte / decimals 255 / empty name / empty symbol / decimals 256 / names with trailing NULs, surrounding spaces, a single NUL, control characters, 300 / 257 bytes, BOM and full-width letters, and asset-contract style names (native / native, XLM, CODE:ISSUER) registered as canonical, optionally renamed after an earlier remote deployment under other metadata; ITS-deployed token addressed through the canonical entry point; unregistered salt / asset) x caller (original deployer, another address reusing the salt) x destination (trusted, never trusted, removed again, - in two thirds of those cases trusted once more, looked up and removed again just before the request -, the hub chain itself, empty, a trusted name in another letter case / with a trailing space) x gas (0, negative, affordable, exact balance, balance+1) x payer authorised or not. Oracle: success iff id registered for the caller's own (deployer,salt) / the canonical address, destination trusted, metadata representable, payer authorised a positive affordable payment; then returned id = independent derivation, exactly one contract_called to the hub whose payload equals the harness's own ABI encoding of SendToHub{destination, Deploy{id,name,symbol,decimals,no minter}}, a gas payment event with the same payload hash, payer and amount, one service event naming the id and the actual metadata, and the only balance change is the gas payment; otherwise failure with the ledger snapshot identical. non-trivial = every case except the suite's fixed happy path; distinct by Debug hash Since rounds 12-13: the same token may have been announced before (to the same / another / both chains) by its rightful requester; and a canonical harness token may change the answers of its metadata getters after their n-th read (oracle there: acceptance undecided; what is announced must be an answer the token gave and be representable)."
    }
    fn cases(&self, tier: Tier) -> u64 {
        tier.pick(15000, 150000)
    }
    fn strategy(&self, _tier: Tier) -> BoxedStrategy<Case> {
        (
            tok(),
            prop_oneof![6 => Just(Who::OriginalDeployer), 2 => Just(Who::OtherReusingSalt), 1 => Just(Who::TheServiceItself)],
            prop_oneof![6 => Just(Dest::Trusted), 1 => Just(Dest::NeverTrusted), 1 => Just(Dest::Removed), 1 => Just(Dest::HubItself), 1 => Just(Dest::Empty), 1 => Just(Dest::TrustedOtherCase), 1 => Just(Dest::TrustedTrailingSpace), 2 => Just(Dest::TrustedMixedCase), 1 => Just(Dest::OwnChainName)],
            prop_oneof![1 => Just(GasC::Zero), 1 => Just(GasC::Negative), 5 => (1u16..500).prop_map(GasC::Affordable), 1 => Just(GasC::ExactBalance), 1 => Just(GasC::BalancePlusOne)],
            prop_oneof![6 => Just(true), 1 => Just(false)],
            prop_oneof![2 => Just(false), 1 => Just(true)],
            prop_oneof![3 => Just(0u8), 1 => Just(1u8), 1 => Just(2u8), 1 => Just(3u8)],
        )
            .prop_map(|(tok, who, dest, gas, authorised, renamed_after_earlier_deployment, announced_before)| Case { tok, who, dest, gas, authorised, renamed_after_earlier_deployment, announced_before })
            .boxed()
    }
    fn fixed_cases(&self, _tier: Tier) -> Vec<Case> {
        let mut v = vec![];
        for k in 0..16 {
            v.push(Case { tok: Tok::Probe(k), who: Who::OriginalDeployer, dest: Dest::Trusted, gas: GasC::Affordable(3), authorised: true, renamed_after_earlier_deployment: false, announced_before: 0 });
            v.push(Case { tok: Tok::Probe(k), who: Who::OriginalDeployer, dest: Dest::Trusted, gas: GasC::Affordable(3), authorised: true, renamed_after_earlier_deployment: true, announced_before: 0 });
        }
        for k in 0..10 {
            v.push(Case { tok: Tok::ItsDeployed(k), who: Who::OriginalDeployer, dest: Dest::Trusted, gas: GasC::Affordable(3), authorised: true, renamed_after_earlier_deployment: false, announced_before: 0 });
            v.push(Case { tok: Tok::ItsDeployed(k), who: Who::OtherReusingSalt, dest: Dest::Trusted, gas: GasC::Affordable(3), authorised: true, renamed_after_earlier_deployment: false, announced_before: 0 });
        }
        v
    }

    fn run(&self, case: &Case, cx: &mut Cx) -> Result<(), String> {
        let w = build_its_world("stellar", HUB_ADDR, 3);
        let env = &w.env;
        let deployer = w.users[0].clone();
        let other = w.users[1].clone();
        let salt = [7u8; 32];
        const BAL: i128 = 1000;
        w.fund_gas(&deployer, BAL);
        w.fund_gas(&other, BAL);
        w.trust("ethereum");
        w.trust("Polygon-zkEVM");
        w.trust("to-be-removed");
        w.untrust("to-be-removed");

        // token set-up
        let mut token_addr: Option<Address> = None;
        let mut meta: Option<(Vec<u8>, Vec<u8>, u32)> = None;
        let mut fickle: Option<(Vec<u8>, Vec<u8>, u32)> = None;
        let mut representable = true;
        let mut registered = true;
        let canonical_entry;
        match case.tok {
            Tok::ItsDeployed(k) => {
                let (n, s, d) = its_meta(k);
                // k / 5: who holds the minter role on the local token (nobody besides the service / the deployer itself /
                // the other caller / both callers): the announcement must carry no minter in every case
                let (supply, local_minter) = match k / 5 % 4 {
                    0 => (100, None),
                    1 => (0, Some(deployer.clone())),
                    2 => (0, Some(other.clone())),
                    _ => (100, Some(deployer.clone())),
                };
                if local_minter.is_some() {
                    cx.label("local_token_has_a_designated_minter");
                }
                let (_, addr) = w.deploy_token(&deployer, &salt, &n, &s, d, supply, local_minter).map_err(|e| format!("setup: {}", e))?;
                token_addr = Some(addr);
                meta = Some((n, s, d));
                canonical_entry = false;
            }
            Tok::ItsDeployedViaCanonical => {
                let (n, s, d) = its_meta(0);
                let (_, addr) = w.deploy_token(&deployer, &salt, &n, &s, d, 100, None).map_err(|e| format!("setup: {}", e))?;
                token_addr = Some(addr);
                registered = false;
                canonical_entry = true;
            }
            Tok::Asset => {
                let a = w.new_asset();
                env.mock_all_auths();
                w.its.client.register_canonical_token(&a);
                let t = TokenClient::new(env, &a);
                meta = Some((sstring_to_vec(&t.name()), sstring_to_vec(&t.symbol()), t.decimals()));
                token_addr = Some(a);
                canonical_entry = true;
            }
            Tok::Probe(k) => {
                let (n, s, d, ok) = probe_meta(k);
                let a = if case.renamed_after_earlier_deployment {
                    // registered and deployed remotely once as "Old Name"/"OLD"/3, renamed afterwards
                    let a = env.register(MetaToken, (sstr(env, "Old Name"), sstr(env, "OLD"), 3u32));
                    env.mock_all_auths_allowing_non_root_auth();
                    w.its.client.register_canonical_token(&a);
                    // paid for by a third account, so that the studied call's balances are untouched
                    w.fund_gas(&w.users[2], 1);
                    env.mock_all_auths_allowing_non_root_auth();
                    w.its.client.deploy_remote_canonical_token(&a, &sstr(env, "ethereum"), &w.users[2], &Token { address: w.gas_asset.clone(), amount: 1 });
                    crate::probes::MetaTokenClient::new(env, &a).set_metadata(&sstr_bytes(env, &n), &sstr_bytes(env, &s), &d);
                    cx.label("renamed_after_earlier_remote_deployment");
                    a
                } else {
                    let a = env.register(MetaToken, (sstr_bytes(env, &n), sstr_bytes(env, &s), d));
                    env.mock_all_auths();
                    w.its.client.register_canonical_token(&a);
                    a
                };
                representable = ok;
                meta = Some((n, s, d));
                token_addr = Some(a);
                canonical_entry = true;
            }
            Tok::Fickle(k) => {
                let a = env.register(MetaToken, (sstr(env, "First Answer"), sstr(env, "FST"), 7u32));
                env.mock_all_auths();
                w.its.client.register_canonical_token(&a);
                let (n2, s2, d2): (&str, &str, u32) = match k / 4 % 3 {
                    0 => ("", "", 7),
                    1 => ("Second Answer", "SND", 9),
                    _ => ("First Answer", "FST", 300),
                };
                crate::probes::MetaTokenClient::new(env, &a).make_fickle(&(k as u32 % 4 + 1), &sstr(env, n2), &sstr(env, s2), &d2);
                fickle = Some((n2.as_bytes().to_vec(), s2.as_bytes().to_vec(), d2));
                meta = Some((b"First Answer".to_vec(), b"FST".to_vec(), 7));
                token_addr = Some(a);
                canonical_entry = true;
                cx.label("token_whose_metadata_answers_change_between_reads");
            }
            Tok::UnregisteredSalt => {
                registered = false;
                canonical_entry = false;
            }
            Tok::UnregisteredAsset => {
                registered = false;
                token_addr = Some(w.new_asset());
                canonical_entry = true;
            }
            Tok::CanonicalIdTakenByRemoteDeployment => {
                let x = w.new_asset();
                let zero = <Address as axelar_soroban_std::address::AddressExt>::zero(env);
                let id = w.its.client.interchain_token_id(&zero, &w.its.client.canonical_token_deploy_salt(&x)).to_array();
                w.inject(&id);
                let (n, s, d) = (b"Remote Origin".to_vec(), b"RMO".to_vec(), 9u32);
                let inner = AMsg::Deploy { token_id: id, name: n.clone(), symbol: s.clone(), decimals: word_u64(d as u64), minter: vec![] };
                let payload = ItsWorld::receive_payload("ethereum", &inner);
                w.approve_for_its(HUB_CHAIN, "remote-deploy-first", HUB_ADDR, &payload).map_err(|e| format!("setup: {}", e))?;
                w.execute(HUB_CHAIN, "remote-deploy-first", HUB_ADDR, &payload).map_err(|e| format!("setup: {}", e))?;
                meta = Some((n, s, d));
                token_addr = Some(x);
                canonical_entry = true;
            }
        }
        let caller = match case.who {
            Who::OriginalDeployer => deployer.clone(),
            Who::OtherReusingSalt => other.clone(),
            Who::TheServiceItself => {
                w.fund_gas(&w.its.id, BAL);
                cx.label("payer_is_the_token_service_itself");
                w.its.id.clone()
            }
        };
        if !canonical_entry && case.who != Who::OriginalDeployer {
            registered = false; // the id is bound to the caller's own (deployer, salt) pair
            cx.label("foreign_caller_reusing_salt");
        }
        let dest_name = match case.dest {
            Dest::Trusted => "ethereum",
            Dest::NeverTrusted => "never-trusted",
            Dest::Removed => "to-be-removed",
            Dest::HubItself => HUB_CHAIN,
            Dest::Empty => "",
            Dest::TrustedOtherCase => "Ethereum",
            Dest::TrustedMixedCase => "Polygon-zkEVM",
            Dest::TrustedTrailingSpace => "ethereum ",
            Dest::OwnChainName => "stellar",
        };
        let dest_trusted = matches!(case.dest, Dest::Trusted | Dest::TrustedMixedCase);
        let gas_amount: i128 = match case.gas {
            GasC::Zero => 0,
            GasC::Negative => -1,
            GasC::Affordable(a) => a as i128,
            GasC::ExactBalance => BAL,
            GasC::BalancePlusOne => BAL + 1,
        };
        let gas_ok = gas_amount > 0 && gas_amount <= BAL;
        // a stated gas payment of exactly 0 is not decided by the statement (today the gas service refuses it);
        // if it is accepted everything else must still hold
        let zero_gas_undecided = gas_amount == 0 && registered && dest_trusted && representable && case.authorised;
        let expect_ok = registered && dest_trusted && representable && case.authorised && gas_ok;
        cx.nontrivial();
        cx.label(&format!("{:?}", case.tok).split('(').next().unwrap().to_string());
        cx.label(&format!("dest:{:?}", case.dest));
        cx.label(&format!("gas:{}", format!("{:?}", case.gas).split('(').next().unwrap()));
        if !representable {
            cx.label("unrepresentable_metadata");
        }

        // balances observed
        let gas_t = TokenClient::new(env, &w.gas_asset);
        let watch: Vec<Address> = vec![deployer.clone(), other.clone(), w.its.id.clone(), w.gas.id.clone()];
        let tok_bal = |a: &Address| -> i128 {
            match (&token_addr, case.tok) {
                (Some(t), Tok::ItsDeployed(_) | Tok::ItsDeployedViaCanonical | Tok::Asset | Tok::UnregisteredAsset) => TokenClient::new(env, t).balance(a),
                _ => 0,
            }
        };
        // (derived from the gas class so that saved cases keep their format) between registration and the request the
        // service may have been upgraded and migrated, and months may have passed: registry and trusted set are carried over
        if let GasC::Affordable(g) = case.gas {
            if g % 5 == 2 {
                upgrade_and_migrate(env, &w.its.id).map_err(|e| format!("setup: {}", e))?;
                cx.label("token_service_upgraded_and_migrated_before_the_request");
            }
            if g % 7 == 3 {
                advance_ledgers(env, 17280 * 100);
                cx.label("100_days_pass_before_the_request");
            }
        }
        // the removed chain may have been trusted again, *used* (looked up successfully: a query, and an outbound
        // transfer of the other user's gas asset if that is registered) and removed again just before the request
        if case.dest == Dest::Removed && !matches!(case.gas, GasC::Affordable(g) if g % 3 == 0) {
            w.trust("to-be-removed");
            let _ = w.its.client.try_is_trusted_chain(&sstr(env, "to-be-removed"));
            ensure_p!(w.untrust("to-be-removed"), "setup: the owner's removal of a trusted chain was refused");
            cx.label("removed_chain_was_used_just_before_its_removal");
        }
        // the same token may have been announced before (to the same or another chain), by whoever may rightfully request
        // it; every request is a request of its own: checked, paid for and announced
        if case.announced_before % 4 != 0 && fickle.is_none() {
            env.mock_all_auths_allowing_non_root_auth();
            for (bit, name) in [(1u8, "ethereum"), (2u8, "Polygon-zkEVM")] {
                if case.announced_before & bit == 0 {
                    continue;
                }
                let one = Token { address: w.gas_asset.clone(), amount: 1 };
                w.fund_gas(if canonical_entry { &w.users[2] } else { &deployer }, 1);
                env.mock_all_auths_allowing_non_root_auth();
                let r = if canonical_entry {
                    w.its.client.try_deploy_remote_canonical_token(token_addr.as_ref().unwrap(), &sstr(env, name), &w.users[2], &one).map(|x| x.is_ok())
                } else {
                    w.its.client.try_deploy_remote_interchain_token(&deployer, &BytesN::from_array(env, &salt), &sstr(env, name), &one).map(|x| x.is_ok())
                };
                env.mock_all_auths_allowing_non_root_auth();
                if matches!(r, Ok(true)) {
                    cx.label(if name == dest_name { "same_token_announced_to_the_same_chain_before" } else { "same_token_announced_to_another_chain_before" });
                } else if !canonical_entry {
                    // the payment was not taken: keep the requester's balance at the level the gas classes assume
                    let t = TokenClient::new(env, &w.gas_asset);
                    let extra = t.balance(&deployer) - BAL;
                    if extra > 0 {
                        t.transfer(&deployer, &w.users[2], &extra);
                    }
                }
            }
        }
        let before: Vec<(i128, i128)> = watch.iter().map(|a| (gas_t.balance(a), tok_bal(a))).collect();

        if case.authorised {
            env.mock_all_auths_allowing_non_root_auth();
        } else {
            env.set_auths(&[]);
        }
        let snap0 = snapshot(env);
        let ev0 = events_len(env);
        let gas_token = Token { address: w.gas_asset.clone(), amount: gas_amount };
        let r = if canonical_entry {
            w.its.client.try_deploy_remote_canonical_token(token_addr.as_ref().unwrap(), &sstr(env, dest_name), &caller, &gas_token)
        } else {
            w.its.client.try_deploy_remote_interchain_token(&caller, &BytesN::from_array(env, &salt), &sstr(env, dest_name), &gas_token)
        };
        let ok = matches!(r, Ok(Ok(_)));
        if let Some((n2, s2, d2)) = &fickle {
            // which of its answers is "the token's actual metadata" is not decided; an accepted request must still have met
            // every other condition, and what it announces must be answers the token gave, and representable
            cx.count("either");
            if !ok {
                ensure_p!(snapshot(env) == snap0 && events_len(env) == ev0, "refused remote deployment changed state");
                return Ok(());
            }
            ensure_p!(
                registered && dest_trusted && case.authorised && gas_amount >= 0 && gas_amount <= BAL,
                "remote deployment succeeded although registered={} destination_trusted={} authorised={} gas {}",
                registered,
                dest_trusted,
                case.authorised,
                gas_amount
            );
            let evs = events_since(env, ev0);
            let called: Vec<_> = evs.iter().filter(|e| e.0 == w.gw.id).collect();
            ensure_p!(called.len() == 1, "expected exactly one gateway event, got {}", called.len());
            let got_payload = match &called[0].2 {
                ScVal::Bytes(b) => b.to_vec(),
                other => return Err(format!("contract_called data is not bytes: {:?}", other)),
            };
            ensure_p!(called[0].1.last() == Some(&scv(env, BytesN::from_array(env, &keccak256(&got_payload)))), "announced payload hash is not the hash of the announced payload");
            let (n1, s1, d1) = meta.clone().unwrap();
            let want_id = oracle_canonical_token_id("stellar", &addr_sv(token_addr.as_ref().unwrap()));
            match crate::oracle::decode_hub_canonical(&got_payload) {
                Some((AHub::Send { chain, .. }, AMsg::Deploy { token_id, name, symbol, decimals, minter })) => {
                    ensure_p!(chain == dest_name.as_bytes() && token_id == want_id && minter.is_empty(), "announcement names another chain / id, or carries a minter");
                    ensure_p!(
                        !name.is_empty() && !symbol.is_empty(),
                        "a deploy message with an empty name or symbol ({:?} / {:?}) was announced for a token that answered so on a later read: what is announced must be representable",
                        String::from_utf8_lossy(&name),
                        String::from_utf8_lossy(&symbol)
                    );
                    ensure_p!((name == n1 || name == *n2) && (symbol == s1 || symbol == *s2), "announced name / symbol is not an answer the token gave");
                    ensure_p!(
                        decimals == word_u64(d1 as u64) || (*d2 <= 255 && decimals == word_u64(*d2 as u64)),
                        "announced decimals {:?} are not an answer the token gave (it answered {} and {}): more than 255 decimals cannot be represented and must not be cut down",
                        &decimals[24..],
                        d1,
                        d2
                    );
                }
                _ => return Err("announced payload is not a canonical SendToHub-wrapped deploy message".to_string()),
            }
            return Ok(());
        }
        if zero_gas_undecided {
            cx.count("either");
        }
        if case.who == Who::TheServiceItself && expect_ok && !ok {
            cx.count("either");
            ensure_p!(snapshot(env) == snap0 && events_len(env) == ev0, "refused remote deployment changed state");
            return Ok(());
        }
        if !expect_ok && !(zero_gas_undecided && ok) {
            if zero_gas_undecided {
                ensure_p!(snapshot(env) == snap0 && events_len(env) == ev0, "refused remote deployment changed state");
                return Ok(());
            }
            cx.count("must_fail");
            ensure_p!(
                !ok,
                "remote deployment succeeded although registered={} destination_trusted={} representable={} authorised={} gas_ok={} (gas {})",
                registered,
                dest_trusted,
                representable,
                case.authorised,
                gas_ok,
                gas_amount
            );
            ensure_p!(snapshot(env) == snap0, "refused remote deployment changed the ledger");
            ensure_p!(events_len(env) == ev0, "refused remote deployment emitted events");
            return Ok(());
        }
        if !zero_gas_undecided {
            cx.count("must_succeed");
        }
        ensure_p!(ok, "remote deployment of a registered token toward a trusted chain with paid gas was refused: {:?}", r);
        let rid = r.unwrap().unwrap().to_array();
        let want_id = if canonical_entry {
            oracle_canonical_token_id("stellar", &addr_sv(token_addr.as_ref().unwrap()))
        } else {
            oracle_token_id("stellar", &addr_sv(&caller), &salt)
        };
        ensure_p!(rid == want_id, "returned token id differs from the independent derivation");
        let (name, symbol, decimals) = meta.clone().unwrap();
        let inner = AMsg::Deploy { token_id: want_id, name: name.clone(), symbol: symbol.clone(), decimals: word_u64(decimals as u64), minter: vec![] };
        let payload = AHub::Send { chain: dest_name.as_bytes().to_vec(), inner: inner.encode() }.encode();
        let evs = events_since(env, ev0);
        // gateway announcement
        let called: Vec<_> = evs.iter().filter(|e| e.0 == w.gw.id).collect();
        ensure_p!(called.len() == 1, "expected exactly one gateway event, got {}", called.len());
        let want_topics = vec![
            sym("contract_called"),
            scv(env, w.its.id.clone()),
            scv(env, sstr(env, HUB_CHAIN)),
            scv(env, sstr(env, HUB_ADDR)),
            scv(env, BytesN::from_array(env, &keccak256(&payload))),
        ];
        ensure_p!(called[0].1 == want_topics, "contract_called topics wrong (sender / hub chain / hub address / payload hash): {:?}", called[0].1);
        let got_payload = match &called[0].2 {
            ScVal::Bytes(b) => b.to_vec(),
            other => return Err(format!("contract_called data is not bytes: {:?}", other)),
        };
        ensure_p!(
            got_payload == payload,
            "announced payload differs from the independent encoding of SendToHub{{{:?}, Deploy{{id, {:?}, {:?}, {}, no minter}}}}",
            dest_name,
            String::from_utf8_lossy(&name),
            String::from_utf8_lossy(&symbol),
            decimals
        );
        // gas payment event
        let paid: Vec<_> = evs.iter().filter(|e| e.0 == w.gas.id).collect();
        ensure_p!(
            gas_amount == 0 || paid.iter().any(|e| e.1.contains(&scv(env, BytesN::from_array(env, &keccak256(&payload)))) && e.1.contains(&scv(env, caller.clone())) && e.1.contains(&scv(env, gas_token.clone()))),
            "no gas payment event carries keccak(payload), payer and the stated gas token/amount: {:?}",
            paid
        );
        // service event: exactly one, naming the id and the token's actual metadata
        let started: Vec<_> = evs.iter().filter(|e| e.0 == w.its.id).collect();
        ensure_p!(
            started.iter().any(|e| e.1.contains(&scv(env, BytesN::from_array(env, &want_id)))
                && e.1.contains(&scv(env, sstr_bytes(env, &name)))
                && e.1.contains(&scv(env, sstr_bytes(env, &symbol)))
                && e.1.contains(&scv(env, decimals))),
            "no service event names the id and the token's actual metadata: {:?}",
            started
        );
        // funds: only the gas payment moved
        for (i, a) in watch.iter().enumerate() {
            let mut want = before[i];
            if *a == caller {
                want.0 -= gas_amount;
            }
            if *a == w.gas.id {
                want.0 += gas_amount;
            }
            ensure_p!((gas_t.balance(a), tok_bal(a)) == want, "balances of watched address {} changed beyond the gas payment", i);
        }
        Ok(())
    }
}
