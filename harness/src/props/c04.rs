//! C04 — ITS acts only on approved, well-formed hub messages from trusted chains.
//! A conforming delivery plus at most one deviation, over trusted-chain histories.

use crate::engine::{Cx, Property, Tier};
use crate::ensure_p;
use crate::itsw::*;
use crate::oracle::{keccak256, word_u128, word_u64, AHub, AMsg};
use crate::probes::{TokenExec, TokenExecClient};
use crate::world::*;
use proptest::prelude::*;
#[allow(unused_imports)]
use crate::prop_oneof;
use serde::{Deserialize, Serialize};
use soroban_sdk::token::TokenClient;
use soroban_sdk::{Address, BytesN};

pub struct C04;

// (one origin name has upper-case letters: names are compared as they were trusted)
const CHAINS: [&str; 3] = ["ethereum", "Avalanche-Fuji", "sui"];
const HUB_ADDR: &str = "axelar1hubaddressxyz";

#[derive(Clone, Copy, Debug, Serialize, Deserialize, PartialEq, Eq)]
pub enum Kind {
    /// mint of the ITS-deployed token to an account
    TransferNative,
    /// release of the canonical token from custody to an account
    TransferCanonical,
    /// transfer with data to an executable contract
    TransferWithData,
    Deploy { with_minter: bool },
}

#[derive(Clone, Copy, Debug, Serialize, Deserialize, PartialEq, Eq)]
pub enum Dev {
    None,
    NeverApproved,
    ApprovedOtherPayload,
    ApprovedOtherId,
    ApprovedOtherSourceAddress,
    ApprovedOtherDestination,
    AlreadyExecuted,
    /// executed, then the same approval is submitted to the gateway again, then delivered again
    ReapprovedAfterExecution,
    SourceChainNotHub,
    SourceAddressNotHub,
    OuterSendToHub,
    RawInner,
    InnerUnsupportedType,
    OriginNeverTrusted,
    OriginRemoved,
    /// trusted when the gateway approved the delivery, removed before it is executed
    OriginRemovedAfterApproval,
    /// the origin chain name differs from a trusted one only in letter case / a trailing space
    OriginCaseOrSpaceVariant(u8),
    /// the source chain differs from the hub chain name only in letter case / a trailing space
    SourceChainCaseOrSpaceVariant(u8),
    UnknownToken,
    BadRecipientOrMinter,
    AmountTooLarge,
    Truncated(u8),
    Padded(u8),
    /// one extra 32-byte word in front of an otherwise conforming payload (k % 6: 0x20 - the head offset a struct
    /// encoded as a whole would carry -, 0x40, 0, the receive-from-hub tag, 0x60, 1); approved exactly as delivered
    Prefixed(u8),
    /// any byte-level mutation of the conforming payload that makes it a non-canonical encoding
    /// (dirty type word / padding, shifted offsets, altered lengths, ...); the mutated payload is what is approved
    Mutated(super::c10::Mutation),
    /// the same kind of mutation applied to the nested message only, which is then wrapped in a well-formed envelope
    NestedMutated(super::c10::Mutation),
    /// the nested message replaced by a blob of this many bytes (0..69), in a well-formed envelope
    NestedShort(u8),
    /// approved under the hub chain, but the delivery names another source chain: 0 the (trusted) origin chain,
    /// 1 this service's own chain name, 2 the hub name in another letter case
    DeliveredUnderOtherSourceChain(u8),
    /// two deviations at once: approved and delivered under the (trusted) origin chain instead of the hub chain, and
    /// the payload is 0 the bare inner message, 1 a SendToHub wrapper, 2 a well-formed ReceiveFromHub wrapper
    FromTrustedChainDirectly(u8),
    /// the conforming message inside two wrappers, each well-formed: k % 4 = 0 ReceiveFromHub(trusted origin) around
    /// ReceiveFromHub(trusted origin), 1 ReceiveFromHub(trusted origin) around ReceiveFromHub(a never-trusted origin),
    /// 2 ReceiveFromHub(trusted origin) around SendToHub, 3 three ReceiveFromHub layers - a wrapper holds a transfer or a
    /// deployment, nothing else
    WrappedTwice(u8),
}

const DEVS: [Dev; 34] = [
    Dev::WrappedTwice(0),
    Dev::WrappedTwice(1),
    Dev::WrappedTwice(2),
    Dev::WrappedTwice(3),
    Dev::FromTrustedChainDirectly(0),
    Dev::FromTrustedChainDirectly(1),
    Dev::FromTrustedChainDirectly(2),
    Dev::DeliveredUnderOtherSourceChain(0),
    Dev::DeliveredUnderOtherSourceChain(1),
    Dev::DeliveredUnderOtherSourceChain(2),
    Dev::NeverApproved,
    Dev::ApprovedOtherPayload,
    Dev::ApprovedOtherId,
    Dev::ApprovedOtherSourceAddress,
    Dev::ApprovedOtherDestination,
    Dev::AlreadyExecuted,
    Dev::ReapprovedAfterExecution,
    Dev::SourceChainNotHub,
    Dev::SourceAddressNotHub,
    Dev::OuterSendToHub,
    Dev::RawInner,
    Dev::InnerUnsupportedType,
    Dev::OriginNeverTrusted,
    Dev::OriginRemoved,
    Dev::OriginRemovedAfterApproval,
    Dev::OriginCaseOrSpaceVariant(0),
    Dev::OriginCaseOrSpaceVariant(1),
    Dev::SourceChainCaseOrSpaceVariant(0),
    Dev::SourceChainCaseOrSpaceVariant(1),
    Dev::UnknownToken,
    Dev::BadRecipientOrMinter,
    Dev::AmountTooLarge,
    Dev::Truncated(1),
    Dev::Prefixed(0),
];

#[derive(Clone, Debug, Serialize, Deserialize)]
pub struct Case {
    /// (set?, chain index) operations applied before the delivery
    pub trust_history: Vec<(bool, u8)>,
    pub origin: u8,
    pub kind: Kind,
    pub amount: u16,
    pub data_len: u8,
    pub seed: u64,
    pub dev: Dev,
    /// a conforming delivery from the same origin chain was executed just before (the service must not
    /// remember anything from it that lets the studied delivery through)
    #[serde(default)]
    pub prior_delivery: bool,
}

fn dev() -> impl Strategy<Value = Dev> {
    prop_oneof![
        5 => Just(Dev::None),
        30 => prop::sample::select(DEVS.to_vec()),
        2 => (0u8..6).prop_map(Dev::Prefixed),
        1 => (1u8..64).prop_map(Dev::Truncated),
        1 => (1u8..64).prop_map(Dev::Padded),
        8 => super::c10::mutation().prop_map(Dev::Mutated),
        4 => super::c10::mutation().prop_map(Dev::NestedMutated),
        1 => (0u8..70).prop_map(Dev::NestedShort),
    ]
}

fn kind() -> impl Strategy<Value = Kind> {
    prop_oneof![
        Just(Kind::TransferNative),
        Just(Kind::TransferCanonical),
        Just(Kind::TransferWithData),
        any::<bool>().prop_map(|with_minter| Kind::Deploy { with_minter }),
    ]
}

/// byte strings that are not the XDR of an address: garbage, well-formed XDR of other value types,
/// a truncated address
fn undecodable_address(env: &soroban_sdk::Env, real: &Address, seed: u64) -> Vec<u8> {
    use crate::oracle::Sv;
    match seed % 6 {
        0 => vec![0xde, 0xad, 0xbe, 0xef],
        1 => Sv::str("GAAAAAAAAAAAAAAAAAAAAAAAAAAAAAAAAAAAAAAAAAAAAAAAAAAAAWHF").xdr(),
        2 => Sv::U32(7).xdr(),
        3 => Sv::Bytes(vec![7u8; 32]).xdr(),
        4 => Sv::Vec(vec![addr_sv(real)]).xdr(),
        _ => {
            let mut v = address_xdr(env, real);
            v.truncate(10);
            v
        }
    }
}

impl Property for C04 {
    type Case = Case;
    fn id(&self) -> &'static str {
        "C04"
    }
    fn rule(&self) -> &'static str {
        "proptest single cases: world = gateway + gas service + ITS (current-source token injected natively) with one ITS-deployed token, one registered canonical token with 500 in custody, an executable probe; a trusted-chain history of 0-6 set/remove operations over 3 chains; optionally a prior successful delivery from the same origin; then a conforming delivery (ReceiveFromHub wrapping a mint / a release / a transfer with data / a deploy with or without minter; amounts 0 - where acceptance is not decided by the statement -, 1..399 and exactly the custody) and at most one deviation from the statement's list (never approved; approved with other payload / id / source address / destination; already executed; approval re-submitted after execution - with 0..150 days passing between approval, delivery and the retries; source chain not the hub (another chain, or the hub's name in another letter case / with a trailing space); source address not the hub address; SendToHub wrapper; raw inner message; inner type 2; origin never trusted / removed again / removed between approval and execution / a trusted name in another letter case or with a trailing space; unknown token; undecodable recipient or minter (garbage, well-formed XDR of a string / number / bytes / vector, truncated address); amount 2^127 / 2^128+a / 2^192+a / 2^255+a; truncated / padded payload; one extra 32-byte word (0x20, 0x40, 0, the receive tag, 0x60, 1) in front of a conforming payload; message ids as long as two transaction hashes in a third of the deliveries; any byte-level mutation - bit flip, dirty type word or padding, shifted offset, altered length - that leaves a non-canonical encoding, applied to the whole payload or to the nested message inside a well-formed envelope; a nested blob of 0..69 bytes; a bare / SendToHub-wrapped / ReceiveFromHub-wrapped message approved and delivered under the trusted origin chain itself instead of the hub chain; approved under the hub chain but delivered naming the trusted origin chain / the service's own chain / the hub name in another letter case). Oracle: effects (exact balance / custody / registry delta, gateway status executed, second delivery refused) iff no deviation; otherwise execute fails and the ledger snapshot is identical (approval still approved, not executed). non-trivial = a deviation is present, or the trust history contains a removal; distinct by Debug hash Since rounds 12-13: the never-trusted origin is an arbitrary name, the hub chain's own name, the service's own chain name, the hub address or the empty name; and the conforming message may arrive inside two or three well-formed wrappers (inner origin trusted / never trusted, or a SendToHub inside), which must be refused."
    }
    fn cases(&self, tier: Tier) -> u64 {
        tier.pick(15000, 200000)
    }
    fn strategy(&self, _tier: Tier) -> BoxedStrategy<Case> {
        (proptest::collection::vec((any::<bool>(), 0u8..3), 0..7), 0u8..3, kind(), prop_oneof![1 => Just(0u16), 1 => Just(500u16), 12 => 1u16..400], 0u8..70, any::<u64>(), dev(), prop_oneof![2 => Just(false), 1 => Just(true)])
            .prop_map(|(trust_history, origin, kind, amount, data_len, seed, dev, prior_delivery)| Case { trust_history, origin, kind, amount, data_len, seed, dev, prior_delivery })
            .boxed()
    }
    fn fixed_cases(&self, _tier: Tier) -> Vec<Case> {
        let mut v = vec![];
        for k in [Kind::TransferNative, Kind::TransferCanonical, Kind::TransferWithData, Kind::Deploy { with_minter: true }, Kind::Deploy { with_minter: false }] {
            v.push(Case { trust_history: vec![], origin: 0, kind: k, amount: 5, data_len: 4, seed: 1, dev: Dev::None , prior_delivery: false });
            for d in DEVS {
                v.push(Case { trust_history: vec![], origin: 0, kind: k, amount: 5, data_len: 4, seed: 1, dev: d , prior_delivery: false });
                if matches!(d, Dev::AlreadyExecuted | Dev::ReapprovedAfterExecution) {
                    // seeds 5, 7: 61 / 150 days pass after the first delivery; 29: 30 days before, 61 after
                    for seed in [5u64, 7, 29] {
                        v.push(Case { trust_history: vec![], origin: 0, kind: k, amount: 5, data_len: 4, seed, dev: d, prior_delivery: false });
                    }
                }
            }
            for d in [Dev::OriginRemoved, Dev::OriginRemovedAfterApproval, Dev::NeverApproved, Dev::UnknownToken, Dev::SourceChainNotHub, Dev::OriginNeverTrusted] {
                v.push(Case { trust_history: vec![], origin: 0, kind: k, amount: 5, data_len: 4, seed: 1, dev: d, prior_delivery: true });
                if d == Dev::OriginNeverTrusted {
                    for seed in [0u64, 2, 3, 4] {
                        v.push(Case { trust_history: vec![], origin: 0, kind: k, amount: 5, data_len: 4, seed, dev: d, prior_delivery: true });
                        v.push(Case { trust_history: vec![], origin: 0, kind: k, amount: 5, data_len: 4, seed, dev: d, prior_delivery: false });
                    }
                }
            }
            for seed in 0..6u64 {
                v.push(Case { trust_history: vec![], origin: 0, kind: k, amount: 5, data_len: 4, seed, dev: Dev::BadRecipientOrMinter, prior_delivery: false });
                v.push(Case { trust_history: vec![], origin: 0, kind: k, amount: 5, data_len: 4, seed, dev: Dev::AmountTooLarge, prior_delivery: false });
            }
            for m in [super::c10::Mutation::DirtyHigh(0, 0), super::c10::Mutation::DirtyHigh(0, 23), super::c10::Mutation::DirtyTail(3), super::c10::Mutation::WordAdd(1, 32)] {
                v.push(Case { trust_history: vec![], origin: 0, kind: k, amount: 5, data_len: 4, seed: 1, dev: Dev::Mutated(m) , prior_delivery: false });
            }
        }
        v
    }

    fn run(&self, case: &Case, cx: &mut Cx) -> Result<(), String> {
        let w = build_its_world("stellar", HUB_ADDR, 4);
        let env = &w.env;
        // tokens
        let (t1_id, t1_addr) = w.deploy_token(&w.users[0], &[1; 32], b"Native", b"NAT", 7, 1000, None).map_err(|e| format!("setup: deploying the ITS token failed: {}", e))?;
        let asset = w.new_asset();
        env.mock_all_auths();
        let t2_id = w.its.client.register_canonical_token(&asset).to_array();
        w.mint_asset(&asset, &w.its.id, 500);
        let exec_id = env.register(TokenExec, (w.its.id.clone(),));
        let exec = TokenExecClient::new(env, &exec_id);
        // trust history
        let mut trusted = [false; 3];
        let mut had_removal = false;
        for (set, c) in &case.trust_history {
            let c = *c as usize % 3;
            if *set {
                let ok = w.trust(CHAINS[c]);
                ensure_p!(ok == !trusted[c], "set_trusted_chain outcome differs from the trust model");
                trusted[c] = true;
            } else {
                let ok = w.untrust(CHAINS[c]);
                ensure_p!(ok == trusted[c], "remove_trusted_chain outcome differs from the trust model");
                if trusted[c] {
                    had_removal = true;
                }
                trusted[c] = false;
            }
        }
        let origin_i = case.origin as usize % 3;
        let origin = CHAINS[origin_i];
        if case.prior_delivery {
            // an ordinary, successful delivery from the same origin first
            if !trusted[origin_i] {
                w.trust(origin);
                trusted[origin_i] = true;
            }
            let prior = AMsg::Transfer { token_id: t1_id, source: vec![9, 9], dest: address_xdr(env, &w.users[1]), amount: word_u128(1), data: vec![] };
            let p = ItsWorld::receive_payload(origin, &prior);
            w.approve_for_its(HUB_CHAIN, "prior-1", HUB_ADDR, &p)?;
            w.execute(HUB_CHAIN, "prior-1", HUB_ADDR, &p).map_err(|e| format!("setup: conforming prior delivery refused: {}", e))?;
            cx.label("after_a_prior_delivery_from_the_same_origin");
        }
        match case.dev {
            Dev::OriginNeverTrusted => {
                // a chain that never appears in any history
                cx.label("origin_never_trusted");
            }
            Dev::OriginRemoved => {
                if !trusted[origin_i] {
                    w.trust(origin);
                }
                w.untrust(origin);
                trusted[origin_i] = false;
                had_removal = true;
            }
            _ => {
                if !trusted[origin_i] {
                    w.trust(origin);
                    trusted[origin_i] = true;
                }
            }
        }
        let variant = |name: &str, k: u8| -> String {
            if k % 2 == 0 {
                let mut c = name.chars();
                match c.next() {
                    // the first letter in the other case
                    Some(f) if f.is_uppercase() => f.to_lowercase().collect::<String>() + c.as_str(),
                    Some(f) => f.to_uppercase().collect::<String>() + c.as_str(),
                    None => "X".to_string(),
                }
            } else {
                format!("{} ", name)
            }
        };
        let origin_variant = match case.dev {
            Dev::OriginCaseOrSpaceVariant(k) => variant(origin, k),
            _ => String::new(),
        };
        let hub_variant = match case.dev {
            Dev::SourceChainCaseOrSpaceVariant(k) => variant(HUB_CHAIN, k),
            _ => String::new(),
        };
        let origin_name: &str = match case.dev {
            // (a name nobody ever trusted: an arbitrary one, the hub chain's own name - every delivery comes *through* the hub,
            // which does not make the hub an origin -, the service's own chain name, the hub's address, the empty name)
            Dev::OriginNeverTrusted => ["never-trusted-chain", HUB_CHAIN, "stellar", HUB_ADDR, ""][(case.seed % 5) as usize],
            Dev::OriginCaseOrSpaceVariant(_) => &origin_variant,
            _ => origin,
        };

        // ---- the conforming inner message
        let recipient = w.users[2].clone();
        let amount = case.amount as i128;
        let data = shaped_bytes(case.seed, 1 + case.data_len as usize);
        let src_addr_bytes = seeded_bytes(case.seed ^ 9, 20);
        let new_id = h32("c04-new-token", case.seed);
        let minter_addr = w.users[3].clone();
        // metadata of a remotely deployed token: must arrive byte for byte
        let (dname, dsymbol, ddec): (Vec<u8>, Vec<u8>, u32) = match case.seed % 7 {
            0 | 1 => ("Remote Tøken".as_bytes().to_vec(), b"RMT".to_vec(), 9),
            2 => (b"Pad\0\0".to_vec(), b"PD\0".to_vec(), 0),
            3 => (b" Spaced ".to_vec(), b" S ".to_vec(), 255),
            4 => (b"\0".to_vec(), b"\0".to_vec(), 18),
            5 => (vec![b'n'; 200], vec![b's'; 40], 7),
            _ => ("\u{feff}Bom\n".as_bytes().to_vec(), "\u{ff26}\u{ff37}".as_bytes().to_vec(), 1),
        };
        let mut inner = match case.kind {
            Kind::TransferNative => AMsg::Transfer { token_id: t1_id, source: src_addr_bytes.clone(), dest: address_xdr(env, &recipient), amount: word_u128(amount as u128), data: vec![] },
            Kind::TransferCanonical => AMsg::Transfer { token_id: t2_id, source: src_addr_bytes.clone(), dest: address_xdr(env, &recipient), amount: word_u128(amount as u128), data: vec![] },
            Kind::TransferWithData => AMsg::Transfer { token_id: t1_id, source: src_addr_bytes.clone(), dest: address_xdr(env, &exec_id), amount: word_u128(amount as u128), data: data.clone() },
            Kind::Deploy { with_minter } => AMsg::Deploy {
                token_id: new_id,
                name: dname.clone(),
                symbol: dsymbol.clone(),
                decimals: word_u64(ddec as u64),
                minter: if with_minter { address_xdr(env, &minter_addr) } else { vec![] },
            },
        };
        if let Kind::Deploy { .. } = case.kind {
            w.inject(&new_id);
        }
        // deviations on the inner message
        let mut applicable = true;
        match (&mut inner, case.dev) {
            (AMsg::Transfer { token_id, .. }, Dev::UnknownToken) => *token_id = h32("unknown-token", 1),
            (AMsg::Deploy { .. }, Dev::UnknownToken) => applicable = false,
            (AMsg::Transfer { dest, .. }, Dev::BadRecipientOrMinter) => *dest = undecodable_address(env, &recipient, case.seed),
            (AMsg::Deploy { minter, .. }, Dev::BadRecipientOrMinter) => *minter = undecodable_address(env, &minter_addr, case.seed),
            (AMsg::Transfer { amount: am, .. }, Dev::AmountTooLarge) => {
                // 2^127, 2^128 + a, 2^192 + a, 2^255 + a: everything above 2^127 - 1 is out of range
                let mut w = word_u128(amount as u128);
                match case.seed % 4 {
                    0 => w = word_u128(1u128 << 127),
                    1 => w[15] |= 1,
                    2 => w[7] |= 1,
                    _ => w[0] |= 0x80,
                }
                *am = w;
            }
            (AMsg::Deploy { .. }, Dev::AmountTooLarge) => applicable = false,
            _ => {}
        }
        let dev = if applicable { case.dev } else { Dev::None };
        let mut inner_bytes = inner.encode();
        if dev == Dev::InnerUnsupportedType {
            inner_bytes[..32].copy_from_slice(&word_u64(2));
        }
        match dev {
            Dev::NestedMutated(m) => super::c10::apply(&mut inner_bytes, &m),
            Dev::NestedShort(n) => {
                inner_bytes = seeded_bytes(case.seed, n as usize);
                if n >= 32 {
                    inner_bytes[..32].copy_from_slice(&word_u64(case.seed % 2));
                }
            }
            _ => {}
        }
        if matches!(dev, Dev::NestedMutated(_) | Dev::NestedShort(_)) && crate::oracle::decode_msg_canonical(&inner_bytes).is_some() {
            cx.count("mutation_still_canonical_skipped");
            return Ok(());
        }
        let mut payload = match dev {
            Dev::WrappedTwice(k) => {
                let o = origin_name.as_bytes().to_vec();
                let conforming = AHub::Receive { chain: o.clone(), inner: inner_bytes.clone() }.encode();
                let mid = match k % 4 {
                    1 => AHub::Receive { chain: b"never-trusted-chain".to_vec(), inner: inner_bytes.clone() }.encode(),
                    2 => AHub::Send { chain: o.clone(), inner: inner_bytes.clone() }.encode(),
                    3 => AHub::Receive { chain: o.clone(), inner: conforming.clone() }.encode(),
                    _ => conforming.clone(),
                };
                AHub::Receive { chain: o, inner: mid }.encode()
            }
            Dev::OuterSendToHub | Dev::FromTrustedChainDirectly(1) => AHub::Send { chain: origin_name.as_bytes().to_vec(), inner: inner_bytes.clone() }.encode(),
            Dev::RawInner | Dev::FromTrustedChainDirectly(0) => inner_bytes.clone(),
            _ => AHub::Receive { chain: origin_name.as_bytes().to_vec(), inner: inner_bytes.clone() }.encode(),
        };
        match dev {
            Dev::Truncated(k) => {
                let k = (k as usize).min(payload.len() - 1);
                payload.truncate(payload.len() - k);
            }
            Dev::Padded(k) => payload.extend(std::iter::repeat(0u8).take(k as usize)),
            Dev::Prefixed(k) => {
                let w: u64 = [0x20, 0x40, 0, 4, 0x60, 1][k as usize % 6];
                let mut p = crate::oracle::word_u64(w).to_vec();
                p.extend_from_slice(&payload);
                payload = p;
                if crate::oracle::decode_hub_canonical(&payload).is_some() {
                    cx.count("mutation_still_canonical_skipped");
                    return Ok(());
                }
            }
            Dev::Mutated(m) => {
                super::c10::apply(&mut payload, &m);
                if crate::oracle::decode_hub_canonical(&payload).is_some() {
                    // still a canonical encoding (of some other message): not a deviation this check can predict
                    cx.count("mutation_still_canonical_skipped");
                    return Ok(());
                }
            }
            _ => {}
        }
        let hub_other_case = HUB_CHAIN.to_uppercase();
        let source_chain: &str = match dev {
            Dev::FromTrustedChainDirectly(_) => origin,
            Dev::DeliveredUnderOtherSourceChain(k) => match k % 3 {
                0 => origin,
                1 => "stellar",
                _ => &hub_other_case,
            },
            Dev::SourceChainNotHub => origin,
            Dev::SourceChainCaseOrSpaceVariant(_) => &hub_variant,
            _ => HUB_CHAIN,
        };
        let source_address = if dev == Dev::SourceAddressNotHub { "axelar1someoneelse" } else { HUB_ADDR };
        // (a third of the deliveries carry an id as long as two transaction hashes)
        let mid = if case.seed % 3 == 1 { format!("0x{}-{}", "cd".repeat(66), case.seed % 10) } else { w.next_message_id() };

        // ---- approval (with its own deviations)
        match dev {
            Dev::NeverApproved => {}
            Dev::ApprovedOtherPayload => {
                let mut p2 = payload.clone();
                let n = p2.len();
                p2[n - 1] ^= 1;
                w.approve_for_its(source_chain, &mid, source_address, &p2)?;
            }
            Dev::ApprovedOtherId => w.approve_for_its(source_chain, &format!("{}x", mid), source_address, &payload)?,
            Dev::ApprovedOtherSourceAddress => w.approve_for_its(source_chain, &mid, "axelar1someoneelse", &payload)?,
            Dev::ApprovedOtherDestination => w.approve_for(&w.users[1], source_chain, &mid, source_address, &payload)?,
            Dev::DeliveredUnderOtherSourceChain(_) => w.approve_for_its(HUB_CHAIN, &mid, source_address, &payload)?,
            _ => w.approve_for_its(source_chain, &mid, source_address, &payload)?,
        }

        if dev == Dev::OriginRemovedAfterApproval {
            w.untrust(origin);
        }
        if dev != Dev::None {
            cx.nontrivial();
            cx.label(&format!("dev:{}", format!("{:?}", dev).split('(').next().unwrap()));
        } else {
            cx.label("conforming");
        }
        if had_removal {
            cx.nontrivial();
            cx.label("trust_history_with_removal");
        }
        cx.label(&format!("{:?}", case.kind).split(' ').next().unwrap().to_string());

        match case.seed / 40 % 4 {
            1 => {
                upgrade_and_migrate(env, &w.its.id).map_err(|e| format!("setup: {}", e))?;
                cx.label("token_service_upgraded_and_migrated_before_delivery");
            }
            2 => {
                upgrade_and_migrate(env, &w.gw.id).map_err(|e| format!("setup: {}", e))?;
                cx.label("gateway_upgraded_and_migrated_before_delivery");
            }
            _ => {}
        }
        // ---- observe before
        let t1 = w.token(&t1_addr);
        let t2 = TokenClient::new(env, &asset);
        let bal = |who: &Address| (t1.balance(who), t2.balance(who));
        let before_rec = bal(&recipient);
        let before_exec = bal(&exec_id);
        let before_its = bal(&w.its.id);
        let snap0 = snapshot(env);
        let ev0 = events_len(env);

        let conforming_effects = |cx: &mut Cx| -> Result<(), String> {
            match case.kind {
                Kind::TransferNative => {
                    ensure_p!(bal(&recipient) == (before_rec.0 + amount, before_rec.1), "recipient not credited exactly the announced amount (mint)");
                    ensure_p!(bal(&w.its.id) == before_its, "service balances changed by a mint");
                }
                Kind::TransferCanonical => {
                    ensure_p!(bal(&recipient) == (before_rec.0, before_rec.1 + amount), "recipient not credited exactly the announced amount (release)");
                    ensure_p!(bal(&w.its.id) == (before_its.0, before_its.1 - amount), "custody not reduced by exactly the released amount");
                }
                Kind::TransferWithData => {
                    ensure_p!(bal(&exec_id) == (before_exec.0 + amount, before_exec.1), "executable not credited exactly the announced amount");
                    let log = exec.log();
                    ensure_p!(log.len() == 1, "executable called {} times", log.len());
                    let r = log.get(0).unwrap();
                    ensure_p!(
                        sstring_to_vec(&r.source_chain) == origin_name.as_bytes()
                            && sstring_to_vec(&r.message_id) == mid.as_bytes()
                            && r.source_address.to_alloc_vec() == src_addr_bytes
                            && r.payload.to_alloc_vec() == data
                            && r.token_id.to_array() == t1_id
                            && r.token_address == t1_addr
                            && r.amount == amount
                            && r.balance_seen == before_exec.0 + amount,
                        "executable received wrong call data: {:?}",
                        r
                    );
                }
                Kind::Deploy { with_minter } => {
                    let addr = w.its.client.token_address(&BytesN::from_array(env, &new_id));
                    let t = w.token(&addr);
                    ensure_p!(t.token_id().to_array() == new_id, "deployed token reports another id");
                    ensure_p!(sstring_to_vec(&t.name()) == dname && sstring_to_vec(&t.symbol()) == dsymbol && t.decimals() == ddec, "deployed token metadata differs from the message (name {:?})", String::from_utf8_lossy(&dname));
                    ensure_p!(t.owner() == w.its.id && t.is_minter(&w.its.id), "deployed token not owned / mintable by the service");
                    ensure_p!(t.is_minter(&minter_addr) == with_minter, "designated minter wrong");
                }
            }
            ensure_p!(w.is_executed(source_chain, &mid), "gateway does not report the message executed");
            ensure_p!(!w.is_approved(&w.its.id, source_chain, &mid, source_address, &payload), "gateway still reports the message approved");
            cx.count("conforming_effects_checked");
            Ok(())
        };

        let days_before = [0u32, 0, 0, 30, 61][(case.seed / 8 % 5) as usize];
        if days_before > 0 {
            advance_ledgers(env, 17280 * days_before);
            cx.label("days_pass_between_approval_and_delivery");
        }
        let r = w.execute(source_chain, &mid, source_address, &payload);
        match dev {
            Dev::None | Dev::AlreadyExecuted | Dev::ReapprovedAfterExecution if amount == 0 && r.is_err() && !matches!(case.kind, Kind::Deploy { .. }) => {
                // whether a transfer of nothing is honoured is not decided by the statement
                cx.count("either");
                cx.label("zero_amount_transfer_refused");
            }
            Dev::None | Dev::AlreadyExecuted | Dev::ReapprovedAfterExecution => {
                if amount == 0 {
                    cx.label("zero_amount_transfer");
                }
                cx.count("must_succeed");
                ensure_p!(r.is_ok(), "conforming delivery ({:?}) was rejected: {:?}", case.kind, r);
                conforming_effects(cx)?;
                // exactly once, however much later (days derived from the case seed; temporary entries of that age are gone)
                let days_after = [0u32, 0, 0, 1, 31, 61, 100, 150][(case.seed % 8) as usize];
                if days_after > 0 {
                    advance_ledgers(env, 17280 * days_after);
                    cx.label(if days_after > 60 { "more_than_60_days_pass_after_delivery" } else { "days_pass_after_delivery" });
                }
                if case.seed % 3 == 0 {
                    // a third party asks the gateway to consume the same id for itself: it gets `false`, and that must be all
                    env.mock_all_auths();
                    let stranger = w.users[1].clone();
                    let r = w.gw.client.try_validate_message(&stranger, &sstr(env, source_chain), &sstr(env, &mid), &sstr(env, source_address), &BytesN::from_array(env, &keccak256(&payload)));
                    env.set_auths(&[]);
                    ensure_p!(!matches!(r, Ok(Ok(true))), "the gateway let a third party consume a message approved for the token service");
                    cx.label("third_party_validate_message_after_delivery");
                }
                let snap1 = snapshot(env);
                let ev1 = events_len(env);
                let r2 = w.execute(source_chain, &mid, source_address, &payload);
                cx.count("must_fail");
                ensure_p!(r2.is_err(), "a delivered message was accepted a second time");
                ensure_p!(snapshot(env) == snap1 && events_len(env) == ev1, "second delivery changed state");
                if dev == Dev::ReapprovedAfterExecution {
                    // anybody can re-submit the signed batch; the message must stay executed
                    w.approve_for_its(source_chain, &mid, source_address, &payload)?;
                    let snap2 = snapshot(env);
                    let ev2 = events_len(env);
                    let r3 = w.execute(source_chain, &mid, source_address, &payload);
                    cx.count("must_fail");
                    ensure_p!(r3.is_err(), "an executed message took effect again after its approval had been re-submitted");
                    ensure_p!(snapshot(env) == snap2 && events_len(env) == ev2, "delivery after re-submitted approval changed state");
                }
            }
            Dev::SourceAddressNotHub => {
                if r.is_ok() {
                    cx.known_or_fail(
                        "WrongSourceAddress",
                        format!("delivery approved with source address {:?} (configured hub address {:?}) was executed ({:?})", source_address, HUB_ADDR, case.kind),
                    )?;
                } else {
                    cx.count("must_fail");
                    ensure_p!(snapshot(env) == snap0 && events_len(env) == ev0, "rejected delivery changed state");
                }
            }
            _ => {
                cx.count("must_fail");
                ensure_p!(r.is_err(), "delivery with deviation {:?} ({:?}) was executed", dev, case.kind);
                ensure_p!(snapshot(env) == snap0, "rejected delivery ({:?}) changed the ledger (balances, registry or approval record)", dev);
                ensure_p!(events_len(env) == ev0, "rejected delivery emitted events");
            }
        }
        Ok(())
    }
}
