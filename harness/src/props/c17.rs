//! C17 — only current operators act via the operators contract; calls forward intact.

use crate::engine::{Cx, Property, Tier};
use crate::ensure_p;
use crate::probes::{Target, TargetClient};
use crate::world::*;
use axelar_operators::{AxelarOperators, AxelarOperatorsClient};
use proptest::prelude::*;
#[allow(unused_imports)]
use crate::prop_oneof;
use serde::{Deserialize, Serialize};
use soroban_sdk::testutils::{Address as _, MockAuth, MockAuthInvoke};
use soroban_sdk::xdr::ScVal;
use soroban_sdk::{Address, Bytes, Env, IntoVal, Symbol, TryFromVal, Val, Vec as SVec};

pub struct C17;

const NA: usize = 4;

#[derive(Clone, Copy, Debug, Serialize, Deserialize, PartialEq, Eq)]
pub enum By {
    Owner,
    FormerOwner,
    Stranger,
    Nobody,
}

#[derive(Clone, Debug, Serialize, Deserialize, PartialEq, Eq)]
pub enum Arg {
    U32(u32),
    I128(i64),
    Bytes(u8),
    Str(u8),
    Void,
    Bool(bool),
    Addr(u8),
    VecU32(Vec<u32>),
}

#[derive(Clone, Debug, Serialize, Deserialize, PartialEq, Eq)]
pub enum Call {
    Echo1(Arg),
    Echo3(Arg, Arg, Arg),
    Sum(u32, u32),
    NoArgs,
    Store(u8),
    Fail(u32),
    /// wrong argument count for `sum` (target traps)
    SumWrongArity(u32),
    Unknown,
    /// forward `collect_fees(receiver, token)` to a real gas service whose gas collector is the operators contract
    CollectFees(u8),
}

#[derive(Clone, Copy, Debug, Serialize, Deserialize, PartialEq, Eq)]
pub enum ExecAuth {
    Caller,
    /// the owner of the operators contract authorises instead of the caller
    OwnerInstead,
    /// another operator authorises instead of the caller
    OtherOperator,
    Nobody,
    /// the caller (an operator) authorised another forwarded call: k % 3 = 0 to another target contract, 1 under another
    /// function name, 2 with one more argument - an authorisation covers one call
    CallerOtherCall(u8),
}

#[derive(Clone, Debug, Serialize, Deserialize, PartialEq, Eq)]
pub enum Op {
    Add { by: By, who: u8 },
    Remove { by: By, who: u8 },
    TransferOwnership { to: u8 },
    Execute { caller: u8, auth: ExecAuth, call: Call },
    AdvanceDays(u8),
    /// the owner upgrades the operators contract and completes the migration: the operator set must be carried over
    UpgradeAndMigrate,
    /// the owner upgrades the operators contract and leaves the migration for later: until the next
    /// `UpgradeAndMigrate` the contract is in its upgraded-but-not-migrated state (whether the owner's and the operators'
    /// calls are served in that state is not decided by the statement; what must fail, must still fail)
    OwnerStartsUpgrade,
    /// somebody who is not the owner tries to make themselves the owner (signing the call themselves)
    SeizeOwnership { by: By },
}

#[derive(Clone, Debug, Serialize, Deserialize)]
pub struct Case {
    pub ops: Vec<Op>,
    /// entry-point sweep case (see sweep.rs); `ops` is ignored
    #[serde(default)]
    pub sweep: Option<crate::sweep::SweepCase>,
}

fn arg() -> impl Strategy<Value = Arg> {
    prop_oneof![
        any::<u32>().prop_map(Arg::U32),
        any::<i64>().prop_map(Arg::I128),
        (0u8..80).prop_map(Arg::Bytes),
        (0u8..40).prop_map(Arg::Str),
        Just(Arg::Void),
        any::<bool>().prop_map(Arg::Bool),
        (0u8..NA as u8).prop_map(Arg::Addr),
        proptest::collection::vec(any::<u32>(), 0..4).prop_map(Arg::VecU32),
    ]
}

fn call() -> impl Strategy<Value = Call> {
    prop_oneof![
        3 => arg().prop_map(Call::Echo1),
        3 => (arg(), arg(), arg()).prop_map(|(a, b, c)| Call::Echo3(a, b, c)),
        2 => (any::<u32>(), any::<u32>()).prop_map(|(a, b)| Call::Sum(a, b)),
        1 => Just(Call::NoArgs),
        1 => (0u8..100).prop_map(Call::Store),
        2 => any::<u32>().prop_map(Call::Fail),
        1 => any::<u32>().prop_map(Call::SumWrongArity),
        1 => Just(Call::Unknown),
        2 => (0u8..4).prop_map(Call::CollectFees),
    ]
}

fn by() -> impl Strategy<Value = By> {
    prop_oneof![6 => Just(By::Owner), 1 => Just(By::FormerOwner), 1 => Just(By::Stranger), 1 => Just(By::Nobody)]
}

fn op() -> impl Strategy<Value = Op> {
    prop_oneof![
        4 => (by(), 0u8..NA as u8).prop_map(|(by, who)| Op::Add { by, who }),
        3 => (by(), 0u8..NA as u8).prop_map(|(by, who)| Op::Remove { by, who }),
        1 => (0u8..NA as u8).prop_map(|to| Op::TransferOwnership { to }),
        7 => (0u8..NA as u8, prop_oneof![6 => Just(ExecAuth::Caller), 1 => Just(ExecAuth::OwnerInstead), 1 => Just(ExecAuth::OtherOperator), 1 => Just(ExecAuth::Nobody), 2 => (0u8..3).prop_map(ExecAuth::CallerOtherCall)], call())
            .prop_map(|(caller, auth, call)| Op::Execute { caller, auth, call }),
        1 => (1u8..60).prop_map(Op::AdvanceDays),
        1 => Just(Op::UpgradeAndMigrate),
        1 => Just(Op::OwnerStartsUpgrade),
        2 => prop_oneof![Just(By::Stranger), Just(By::FormerOwner), Just(By::Nobody)].prop_map(|by| Op::SeizeOwnership { by }),
    ]
}

fn to_val(env: &Env, a: &Arg, pool: &[Address]) -> Val {
    match a {
        Arg::U32(v) => v.into_val(env),
        Arg::I128(v) => ((*v as i128) << 40).into_val(env),
        Arg::Bytes(n) => Bytes::from_slice(env, &seeded_bytes(*n as u64, *n as usize)).into_val(env),
        Arg::Str(n) => sstr_bytes(env, &seeded_bytes(1000 + *n as u64, *n as usize)).into_val(env),
        Arg::Void => ().into_val(env),
        Arg::Bool(b) => b.into_val(env),
        Arg::Addr(i) => pool[*i as usize % pool.len()].clone().into_val(env),
        Arg::VecU32(v) => {
            let mut sv: SVec<u32> = SVec::new(env);
            for x in v {
                sv.push_back(*x);
            }
            sv.into_val(env)
        }
    }
}

fn sc(env: &Env, v: &Val) -> ScVal {
    ScVal::try_from_val(env, v).unwrap()
}

impl Property for C17 {
    type Case = Case;
    fn id(&self) -> &'static str {
        "C17"
    }
    fn rule(&self) -> &'static str {
        "proptest histories (<=25 quick / <=45 thorough ops) over 4 addresses: add / remove operator (duplicates and absent addresses included) authorised by the owner, a former owner, a stranger or nobody; ownership transfer; attempts by a stranger / the former owner / nobody to make themselves the owner; the owner starting an upgrade and leaving the migration pending (until the next upgrade-and-migrate step calls that must succeed are undecided, calls that must fail must still fail); execute(caller, target function, args) with the caller's own authorisation, the owner's instead, another operator's instead, or none, against a probe target offering echo1, echo3, sum, noargs, store and a failing function, plus wrong-arity and unknown-function calls, and collect_fees forwarded to a real gas service whose collector is the operators contract, with arguments of eight value kinds. Oracle: set model (membership swept over the pool after every step); execute succeeds iff the caller authorised and is a member at that moment and the target call succeeds; then the probe's call log grows by exactly one entry with the same function and arguments and the returned value equals the probe's; otherwise the call fails with the ledger snapshot identical. non-trivial = history contains an execute by a former member, or a successfully forwarded call with >= 2 arguments; distinct by Debug hash. A share of the random cases is an entry-point sweep (construction as described for C13: the exported functions of all shipped contracts read from the sources of the tree under test, a complete deployed system, pooled arguments - including well-formed signer sets nobody installed and proofs properly signed by the gateway's own signer set over digests that belong to no command -, every require_auth satisfied by the host's mock and recorded; entry points absent from the pinned inventory get 300 deterministic cases each); oracle: a gas service whose collector is the operators contract pays out only if a current operator is among the recorded signers (forwarded calls are generated well-formed: target, function name and arguments chosen together); non-trivial = the call succeeded"
    }
    fn cases(&self, tier: Tier) -> u64 {
        tier.pick(4000, 60000)
    }
    fn strategy(&self, tier: Tier) -> BoxedStrategy<Case> {
        let direct: BoxedStrategy<Case> = {
        (any::<bool>(), proptest::collection::vec(op(), 1..=tier.pick(25usize, 45usize)), crate::engine::repeats())
            .prop_map(|(start, ops, reps)| {
                let mut ops = crate::engine::with_repeats(ops, &reps);
                let mut pre = if start { vec![Op::Add { by: By::Owner, who: 0 }, Op::Add { by: By::Owner, who: 1 }, Op::Add { by: By::Owner, who: 2 }] } else { vec![] };
                pre.append(&mut ops);
                Case { ops: pre, sweep: None }
            })
            .boxed()
        };
        match crate::sweep::strategy(crate::sweep::Rule::Operators) {
            Some(sw) => prop_oneof![6 => direct, 1 => sw.prop_map(|s| Case { ops: vec![], sweep: Some(s) })].boxed(),
            None => direct,
        }
    }

    fn fixed_cases(&self, _tier: Tier) -> Vec<Case> {
        // (entry points of the operators contract that the pinned inventory does not know get five times as many cases: who
        // is an operator is this property's subject)
        let mut v: Vec<Case> = crate::sweep::fixed_cases(300).into_iter().map(|s| Case { ops: vec![], sweep: Some(s) }).collect();
        v.extend(crate::sweep::fixed_cases(1500).into_iter().skip(0).filter(|s| s.ep.contract == "axelar-operators").map(|s| Case { ops: vec![], sweep: Some(s) }));
        v
    }

    fn run(&self, case: &Case, cx: &mut Cx) -> Result<(), String> {
        if let Some(sw) = &case.sweep {
            // two invariants, alternating: payouts through the operators contract need a current operator; the operator set
            // changes only with its owner's authorisation (in this call, or in an earlier one naming the newcomer)
            let rule = if sw.pick % 2 == 0 { crate::sweep::Rule::Operators } else { crate::sweep::Rule::Roles };
            return crate::sweep::run(sw, cx, rule);
        }
        let env = new_env();
        let mut pool: Vec<Address> = (0..NA).map(|_| Address::generate(&env)).collect();
        // the last candidate is the account-kind address carrying the same 32 bytes as the first (contract-kind) one:
        // appointing, removing or calling as one of them says nothing about the other
        let twin = kind_twin(&env, &pool[0]);
        *pool.last_mut().unwrap() = twin;
        let owner0 = Address::generate(&env);
        let stranger = Address::generate(&env);
        let ops_id = env.register(AxelarOperators, (&owner0,));
        let ops = AxelarOperatorsClient::new(&env, &ops_id);
        let target_id = env.register(Target, ());
        let target = TargetClient::new(&env, &target_id);
        // a real gas service whose gas collector is the operators contract (a usual deployment)
        let gas_owner = Address::generate(&env);
        let gas_id = env.register(axelar_gas_service::AxelarGasService, (&gas_owner, &ops_id));
        let fee_asset = env.register_stellar_asset_contract_v2(Address::generate(&env)).address();
        env.mock_all_auths();
        soroban_sdk::token::StellarAssetClient::new(&env, &fee_asset).mint(&gas_id, &1000);
        let fee_token = soroban_sdk::token::TokenClient::new(&env, &fee_asset);
        let fee_receiver = Address::generate(&env);
        let mut fees_out: i128 = 0;
        let mut member = [false; NA];
        let mut was_member = [false; NA];
        let mut owner = owner0.clone();
        let mut former_owner: Option<Address> = None;
        let mut log_len: u32 = 0;
        let mut nontrivial = false;
        let mut days_passed: u32 = 0;
        let mut window = false;

        for (step, op) in case.ops.iter().enumerate() {
            match op {
                Op::OwnerStartsUpgrade => {
                    env.mock_all_auths();
                    let h = soroban_sdk::BytesN::from_array(&env, &empty_wasm_hash());
                    ensure_p!(matches!(ops.try_upgrade(&h), Ok(Ok(()))), "step {}: the owner's upgrade was refused", step);
                    window = true;
                    cx.label("upgrade_started_migration_pending");
                }
                Op::SeizeOwnership { by } => {
                    let signer: Option<Address> = match by {
                        By::FormerOwner => Some(former_owner.clone().unwrap_or_else(|| stranger.clone())),
                        By::Nobody => None,
                        _ => Some(stranger.clone()),
                    };
                    let new = signer.clone().unwrap_or_else(|| stranger.clone());
                    if new == owner {
                        continue;
                    }
                    match &signer {
                        Some(s) if is_account_kind(s) => {
                            cx.count("skipped_account_kind_signer_other_than_the_principal");
                            continue;
                        }
                        Some(s) => {
                            let inv = MockAuthInvoke { contract: &ops_id, fn_name: "transfer_ownership", args: (new.clone(),).into_val(&env), sub_invokes: &[] };
                            env.mock_auths(&[MockAuth { address: s, invoke: &inv }]);
                        }
                        None => env.mock_auths(&[]),
                    }
                    let snap0 = snapshot(&env);
                    let r = ops.try_transfer_ownership(&new);
                    cx.count("must_fail");
                    if window {
                        nontrivial = true;
                        cx.label("ownership_grab_while_migration_pending");
                    }
                    ensure_p!(!matches!(r, Ok(Ok(()))), "step {} {:?}: ownership of the operators contract (and with it the say over who is an operator) went to an address the owner never named, without the owner's authorisation (migration pending: {})", step, op, window);
                    ensure_p!(snapshot(&env) == snap0, "step {} {:?}: refused ownership transfer changed state", step, op);
                }
                Op::AdvanceDays(d) => {
                    if days_passed + *d as u32 <= 200 {
                        days_passed += *d as u32;
                        advance_ledgers(&env, *d as u32 * 17280);
                    }
                }
                Op::UpgradeAndMigrate => {
                    upgrade_and_migrate(&env, &ops.address).map_err(|e| format!("step {}: {}", step, e))?;
                    window = false;
                    cx.label("upgrade_and_migration_in_history");
                }
                Op::TransferOwnership { to } => {
                    env.mock_all_auths();
                    let new = pool[*to as usize % NA].clone();
                    ops.transfer_ownership(&new);
                    if new != owner {
                        former_owner = Some(owner.clone());
                    }
                    owner = new;
                }
                Op::Add { by, who } | Op::Remove { by, who } => {
                    let adding = matches!(op, Op::Add { .. });
                    let wi = *who as usize % NA;
                    let fn_name = if adding { "add_operator" } else { "remove_operator" };
                    let signer: Option<Address> = match by {
                        By::Owner => Some(owner.clone()),
                        By::FormerOwner => Some(former_owner.clone().unwrap_or_else(|| stranger.clone())),
                        By::Stranger => Some(stranger.clone()),
                        By::Nobody => None,
                    };
                    match &signer {
                        Some(s) => {
                            let inv = MockAuthInvoke { contract: &ops_id, fn_name, args: (pool[wi].clone(),).into_val(&env), sub_invokes: &[] };
                            if is_account_kind(s) {
                                // an account-kind signer cannot be given a mock account contract; wholesale mocking is only
                                // faithful when that signer is the address whose authorisation the call needs
                                if *s != owner {
                                    cx.count("skipped_account_kind_signer_other_than_the_principal");
                                    continue;
                                }
                                env.mock_all_auths();
                            } else {
                                env.mock_auths(&[MockAuth { address: s, invoke: &inv }]);
                            }
                        }
                        None => env.mock_auths(&[]),
                    }
                    let authorised = signer.as_ref() == Some(&owner);
                    let expect_ok = authorised && (adding != member[wi]);
                    // adding a present / removing an absent address with the owner's authorisation leaves the set as it
                    // is whether it is reported as an error (today) or as a no-op: not decided by the statement
                    let undecided = authorised && (adding == member[wi]);
                    let snap0 = snapshot(&env);
                    let ev0 = events_len(&env);
                    let ok = if adding { matches!(ops.try_add_operator(&pool[wi]), Ok(Ok(()))) } else { matches!(ops.try_remove_operator(&pool[wi]), Ok(Ok(()))) };
                    if undecided {
                        cx.count("either");
                    } else if expect_ok && window && !ok {
                        cx.count("either");
                        ensure_p!(snapshot(&env) == snap0 && events_len(&env) == ev0, "step {} {:?}: refused call changed state", step, op);
                    } else if expect_ok {
                        cx.count("must_succeed");
                        ensure_p!(ok, "step {} {:?}: owner-authorised change of an {} address refused", step, op, if adding { "absent" } else { "present" });
                        member[wi] = adding;
                        if adding {
                            was_member[wi] = true;
                        }
                    } else {
                        cx.count("must_fail");
                        ensure_p!(!ok, "step {} {:?}: accepted (authorised by owner: {}, currently member: {})", step, op, authorised, member[wi]);
                        ensure_p!(snapshot(&env) == snap0 && events_len(&env) == ev0, "step {} {:?}: refused call changed state", step, op);
                    }
                }
                Op::Execute { caller, auth, call } => {
                    let ci = *caller as usize % NA;
                    let (fname, args): (&str, Vec<Val>) = match call {
                        Call::Echo1(a) => ("echo1", vec![to_val(&env, a, &pool)]),
                        Call::Echo3(a, b, c) => ("echo3", vec![to_val(&env, a, &pool), to_val(&env, b, &pool), to_val(&env, c, &pool)]),
                        Call::Sum(a, b) => ("sum", vec![a.into_val(&env), b.into_val(&env)]),
                        Call::NoArgs => ("noargs", vec![]),
                        Call::Store(n) => ("store", vec![Bytes::from_slice(&env, &seeded_bytes(*n as u64, *n as usize)).into_val(&env)]),
                        Call::Fail(a) => ("fail", vec![a.into_val(&env)]),
                        Call::SumWrongArity(a) => ("sum", vec![a.into_val(&env)]),
                        Call::Unknown => ("no_such_function", vec![]),
                        Call::CollectFees(a) => (
                            "collect_fees",
                            vec![fee_receiver.clone().into_val(&env), axelar_soroban_std::types::Token { address: fee_asset.clone(), amount: *a as i128 }.into_val(&env)],
                        ),
                    };
                    let callee = if matches!(call, Call::CollectFees(_)) { gas_id.clone() } else { target_id.clone() };
                    let mut sargs: SVec<Val> = SVec::new(&env);
                    for a in &args {
                        sargs.push_back(*a);
                    }
                    let func = Symbol::new(&env, fname);
                    let signer: Option<Address> = match auth {
                        ExecAuth::Caller | ExecAuth::CallerOtherCall(_) => Some(pool[ci].clone()),
                        ExecAuth::OwnerInstead => Some(owner.clone()),
                        ExecAuth::OtherOperator => (0..NA).find(|i| *i != ci && member[*i]).map(|i| pool[i].clone()).or(Some(stranger.clone())),
                        ExecAuth::Nobody => None,
                    };
                    match &signer {
                        Some(s) => {
                            // what the signer signed: the studied call, or (CallerOtherCall) a neighbouring one
                            let (s_callee, s_func, s_args) = match auth {
                                ExecAuth::CallerOtherCall(k) => {
                                    let mut more = sargs.clone();
                                    more.push_back(1u32.into_val(&env));
                                    match k % 3 {
                                        0 => (if callee == gas_id { target_id.clone() } else { gas_id.clone() }, func.clone(), sargs.clone()),
                                        1 => (callee.clone(), Symbol::new(&env, if fname == "noargs" { "echo1" } else { "noargs" }), sargs.clone()),
                                        _ => (callee.clone(), func.clone(), more),
                                    }
                                }
                                _ => (callee.clone(), func.clone(), sargs.clone()),
                            };
                            let inv = MockAuthInvoke {
                                contract: &ops_id,
                                fn_name: "execute",
                                args: (pool[ci].clone(), s_callee, s_func, s_args).into_val(&env),
                                sub_invokes: &[],
                            };
                            if is_account_kind(s) {
                                if *s != pool[ci] || matches!(auth, ExecAuth::CallerOtherCall(_)) {
                                    cx.count("skipped_account_kind_signer_other_than_the_principal");
                                    continue;
                                }
                                env.mock_all_auths();
                            } else {
                                env.mock_auths(&[MockAuth { address: s, invoke: &inv }]);
                            }
                        }
                        None => env.mock_auths(&[]),
                    }
                    let authorised = signer.as_ref() == Some(&pool[ci]) && !matches!(auth, ExecAuth::CallerOtherCall(_));
                    if matches!(auth, ExecAuth::CallerOtherCall(_)) && member[ci] {
                        cx.label("operator_signed_another_forwarded_call");
                        nontrivial = true;
                    }
                    let target_ok = !matches!(call, Call::Fail(_) | Call::SumWrongArity(_) | Call::Unknown | Call::CollectFees(0));
                    let expect_ok = authorised && member[ci] && target_ok;
                    if was_member[ci] && !member[ci] {
                        nontrivial = true;
                        cx.label("execute_by_former_member");
                    }
                    if !member[ci] && !was_member[ci] {
                        cx.label("execute_by_never_member");
                    }
                    let snap0 = snapshot(&env);
                    let ev0 = events_len(&env);
                    let r = ops.try_execute(&pool[ci], &callee, &func, &sargs);
                    let ok = matches!(r, Ok(Ok(_)));
                    if expect_ok && window && !ok {
                        cx.count("either");
                        ensure_p!(snapshot(&env) == snap0 && events_len(&env) == ev0, "step {} {:?}: refused call changed state", step, op);
                    } else if expect_ok {
                        cx.count("must_succeed");
                        ensure_p!(ok, "step {} {:?}: current operator's authorised call was not forwarded: {:?}", step, op, r);
                        let ret: Val = r.unwrap().unwrap();
                        if let Call::CollectFees(a) = call {
                            // forwarded to the real gas service: the operators contract is its collector and the direct caller
                            fees_out += *a as i128;
                            cx.label("forwarded_to_gas_service_as_its_collector");
                            ensure_p!(fee_token.balance(&fee_receiver) == fees_out && fee_token.balance(&gas_id) == 1000 - fees_out, "step {}: forwarded collect_fees did not move exactly the requested amount", step);
                            ensure_p!(sc(&env, &ret) == ScVal::Void, "step {}: unexpected return value from collect_fees", step);
                            for i in 0..NA {
                                ensure_p!(ops.is_operator(&pool[i]) == member[i], "membership changed by a forwarded call");
                            }
                            continue;
                        }
                        let want_ret: ScVal = match call {
                            Call::Echo1(_) => sc(&env, &args[0]),
                            Call::Echo3(..) => sc(&env, &args[1]),
                            Call::Sum(a, b) => ScVal::U32(a.wrapping_add(*b)),
                            Call::NoArgs => ScVal::U64(0xdead_beef),
                            Call::Store(_) => ScVal::Void,
                            _ => unreachable!(),
                        };
                        ensure_p!(sc(&env, &ret) == want_ret, "step {}: returned value {:?} differs from the target's {:?}", step, sc(&env, &ret), want_ret);
                        let log = target.log();
                        ensure_p!(log.len() == log_len + 1, "step {}: target was called {} times by one execute", step, log.len() - log_len);
                        log_len += 1;
                        let rec = log.get(log_len - 1).unwrap();
                        ensure_p!(rec.func == func, "step {}: target function {:?} differs from the requested {:?}", step, rec.func, func);
                        let got_args: Vec<ScVal> = rec.args.iter().map(|v| sc(&env, &v)).collect();
                        let want_args: Vec<ScVal> = args.iter().map(|v| sc(&env, v)).collect();
                        ensure_p!(got_args == want_args, "step {}: forwarded arguments differ: {:?} vs {:?}", step, got_args, want_args);
                        if args.len() >= 2 {
                            nontrivial = true;
                            cx.label("forwarded_call_with_2plus_args");
                        }
                    } else {
                        cx.count("must_fail");
                        ensure_p!(!ok, "step {} {:?}: executed (authorised by caller: {}, member: {}, target succeeds: {})", step, op, authorised, member[ci], target_ok);
                        ensure_p!(snapshot(&env) == snap0, "step {} {:?}: refused / failed call changed the ledger", step, op);
                        ensure_p!(events_len(&env) == ev0, "step {} {:?}: refused / failed call emitted events", step, op);
                        ensure_p!(target.log().len() == log_len, "step {}: target call log grew although the call failed", step);
                    }
                }
            }
            for i in 0..NA {
                ensure_p!(ops.is_operator(&pool[i]) == member[i], "after step {} {:?}: is_operator(pool[{}]) differs from the set model", step, op, i);
            }
            ensure_p!(!ops.is_operator(&stranger), "stranger became an operator");
            // the contracts calls are forwarded to never were appointed either
            ensure_p!(!ops.is_operator(&target_id) && !ops.is_operator(&gas_id) && !ops.is_operator(&ops_id), "after step {} {:?}: a contract nobody appointed (a target of forwarded calls, or the operators contract itself) is reported as operator", step, op);
        }
        if nontrivial {
            cx.nontrivial();
        }
        Ok(())
    }
}
