//! C13 — outbound calls are announced exactly, and only under the sender's authority.

use crate::engine::{Cx, Property, Tier};
use crate::ensure_p;
use crate::oracle::keccak256;
use crate::probes::{Caller, CallerClient};
use crate::world::*;
use proptest::prelude::*;
#[allow(unused_imports)]
use crate::prop_oneof;
use serde::{Deserialize, Serialize};
use soroban_sdk::testutils::{Address as _, MockAuth, MockAuthInvoke};
use soroban_sdk::{Address, Bytes, BytesN, IntoVal};

pub struct C13;

#[derive(Clone, Copy, Debug, Serialize, Deserialize, PartialEq, Eq)]
pub enum Sender {
    AccountAuthorised,
    AccountUnauthorised,
    /// the account authorised a call with another payload
    AccountAuthorisedOtherPayload,
    /// the account authorised a call to another destination: the chain (true) or the address (false) is one character longer
    AccountAuthorisedOtherDestination(bool),
    /// another account authorised this exact call
    OtherAccountAuthorised,
    ContractAsItself,
    ContractNamingAnAccount,
    /// the gateway's own address is named as sender and nobody authorises (the gateway is not its own caller)
    GatewayItselfNobodySigns,
    /// the gateway's owner / operator is named as sender and does not authorise
    RoleHolderNotSigning(bool),
    /// the shipped example app sends on behalf of an account that authorised it: the announced sender is the app
    ViaExampleApp,
    /// ... that did not authorise it
    ViaExampleAppUnauthorised,
    /// the account has just (same ledger) consumed an inbound message addressed to it, with its authorisation for that;
    /// the outbound call naming it carries no authorisation
    AccountUnauthorisedAfterOwnInboundMessage,
}

#[derive(Clone, Debug, Serialize, Deserialize, PartialEq, Eq)]
pub enum Str {
    Empty,
    Ascii(u16),
    NonAscii(u8),
    InvalidUtf8(u8),
    Long(u16),
    /// the string form of an address of the world: 0 the account named as sender, 1 the probe contract, 2 the gateway,
    /// 3 the example app (a call whose destination is spelled like its own sender, or like the gateway)
    Strkey(u8),
    /// the same bytes as the other string of the call (chain = address)
    SameAsOther,
}

#[derive(Clone, Debug, Serialize, Deserialize)]
pub struct Case {
    pub sender: Sender,
    pub chain: Str,
    pub addr: Str,
    pub len: u32,
    pub seed: u64,
    /// the gateway was upgraded by its owner and not yet migrated (a contract-wide mode must not open anything)
    #[serde(default)]
    pub window_open: bool,
    /// entry-point sweep case (see sweep.rs); the other fields are ignored
    #[serde(default)]
    pub sweep: Option<crate::sweep::SweepCase>,
}

fn strc() -> impl Strategy<Value = Str> {
    prop_oneof![
        1 => Just(Str::Empty),
        4 => (1u16..300).prop_map(Str::Ascii),
        2 => (1u8..40).prop_map(Str::NonAscii),
        1 => (1u8..40).prop_map(Str::InvalidUtf8),
        1 => (300u16..12000).prop_map(Str::Long),
        2 => (0u8..4).prop_map(Str::Strkey),
    ]
}

fn resolve(s: &Str, salt: u64, keys: &[Vec<u8>; 4]) -> Vec<u8> {
    match s {
        Str::Strkey(k) => keys[*k as usize % 4].clone(),
        Str::SameAsOther => vec![],
        Str::Empty => vec![],
        Str::Ascii(n) => seeded_bytes(salt, *n as usize).into_iter().map(|b| 0x20 + b % 95).collect(),
        Str::Long(n) => seeded_bytes(salt, *n as usize).into_iter().map(|b| 0x20 + b % 95).collect(),
        Str::NonAscii(n) => {
            let pool = ["é", "ß", "漢", "字", "🚀", "Ω", "a"];
            seeded_bytes(salt, *n as usize).into_iter().map(|b| pool[b as usize % pool.len()]).collect::<String>().into_bytes()
        }
        Str::InvalidUtf8(n) => {
            let mut v = seeded_bytes(salt, *n as usize);
            v.push(0xff);
            v.push(0xc0);
            v
        }
    }
}

fn len_strategy(tier: Tier) -> BoxedStrategy<u32> {
    let big = tier.pick(1u32, 6u32);
    prop_oneof![
        12 => prop::sample::select(vec![0u32, 1, 2, 31, 32, 33, 63, 64, 65, 135, 136, 137, 271, 272, 273, 407, 408, 409]),
        10 => 0u32..600,
        4 => 600u32..5000,
        big => prop::sample::select(vec![65535u32, 65536, 65537, 40000, 136 * 300, 136 * 300 - 1]),
    ]
    .boxed()
}

fn blank() -> Case {
    Case { sender: Sender::AccountUnauthorised, chain: Str::Empty, addr: Str::Empty, len: 0, seed: 0, window_open: false, sweep: None }
}

impl Property for C13 {
    type Case = Case;
    fn id(&self) -> &'static str {
        "C13"
    }
    fn rule(&self) -> &'static str {
        "proptest single cases: sender (account with exact authorisation / none / authorisation for another payload / another account's authorisation; none, right after the account consumed an inbound message of its own in the same ledger; probe contract calling as itself / naming an account; the gateway's own address, its owner or its operator named as sender with nobody signing; the shipped example app sending for an account with / without that account's authorisation), gateway in its ordinary state or upgraded-but-not-migrated, with 1-3 initial signer sets, retention 0-2 and 0-3 earlier rotations (so that signer history inside and outside the window exists), destination chain and address strings (empty, ASCII up to 300 bytes, multi-byte UTF-8, invalid UTF-8, up to 12 KB long), payload lengths around the Keccak rate (0,1,31,32,33,135,136,137,271..273,...) up to 64 KiB with case-seeded content. Oracle: success iff the sender authorised (or is the calling contract); then exactly one event by the gateway with topics (contract_called, sender, chain, address, own Keccak-256(payload)) and data = payload, and the gateway's own ledger entries unchanged; otherwise failure, no event, full snapshot equality. non-trivial = every case (the suite has one sample); distinct by Debug hash of the whole case. One case in six is an entry-point sweep: the exported functions of all seven shipped contracts are read from the sources of the tree under test (entry points absent from the inventory taken at the pinned commit get 300 deterministic cases each and half of the random ones), one is called on a fully deployed system (gateway, gas service, operators, token service with a deployed token, stand-alone token, upgrader, example app; some contracts optionally upgraded-but-not-migrated) with arguments drawn from pools of the system's principals, contracts, tokens, names, ids and boundary amounts, every require_auth satisfied by the host's mock and recorded; oracle: every contract_called event of the gateway names a sender that is among the recorded signers or is the called contract itself (cases where the mock let a contract sign are discarded); non-trivial = the call succeeded Since round 12 destination and chain strings also include the string forms of the sender, the probe contract, the gateway and the example app, and 'address = chain'."
    }
    fn cases(&self, tier: Tier) -> u64 {
        tier.pick(20000, 200000)
    }
    fn strategy(&self, tier: Tier) -> BoxedStrategy<Case> {
        let direct = (
            prop_oneof![
                4 => Just(Sender::AccountAuthorised),
                1 => Just(Sender::AccountUnauthorised),
                1 => Just(Sender::AccountAuthorisedOtherPayload),
                1 => any::<bool>().prop_map(Sender::AccountAuthorisedOtherDestination),
                1 => Just(Sender::OtherAccountAuthorised),
                3 => Just(Sender::ContractAsItself),
                1 => Just(Sender::ContractNamingAnAccount),
                1 => Just(Sender::GatewayItselfNobodySigns),
                1 => any::<bool>().prop_map(Sender::RoleHolderNotSigning),
                2 => Just(Sender::ViaExampleApp),
                1 => Just(Sender::ViaExampleAppUnauthorised),
                1 => Just(Sender::AccountUnauthorisedAfterOwnInboundMessage),
            ],
            strc(),
            prop_oneof![12 => strc(), 1 => Just(Str::SameAsOther)],
            len_strategy(tier),
            any::<u64>(),
            prop_oneof![3 => Just(false), 1 => Just(true)],
        )
            .prop_map(|(sender, chain, addr, len, seed, window_open)| Case { sender, chain, addr, len, seed, window_open, sweep: None });
        let direct = direct.boxed();
        match crate::sweep::strategy(crate::sweep::Rule::Announce) {
            Some(sw) => prop_oneof![5 => direct, 1 => sw.prop_map(|s| Case { sweep: Some(s), ..blank() })].boxed(),
            None => direct,
        }
    }
    fn fixed_cases(&self, _tier: Tier) -> Vec<Case> {
        let mut v: Vec<Case> = crate::sweep::fixed_cases(300).into_iter().map(|s| Case { sweep: Some(s), ..blank() }).collect();
        // destination (or chain) spelled like an address of the ledger, for the sender classes that must be announced
        for sender in [Sender::AccountAuthorised, Sender::ContractAsItself, Sender::ViaExampleApp] {
            for k in 0..4u8 {
                v.push(Case { sender: sender.clone(), chain: Str::Ascii(8), addr: Str::Strkey(k), len: 40, seed: 5, window_open: false, sweep: None });
                v.push(Case { sender: sender.clone(), chain: Str::Strkey(k), addr: Str::Ascii(8), len: 40, seed: 5, window_open: false, sweep: None });
            }
            v.push(Case { sender: sender.clone(), chain: Str::Ascii(8), addr: Str::SameAsOther, len: 40, seed: 5, window_open: false, sweep: None });
        }
        v
    }

    fn run(&self, case: &Case, cx: &mut Cx) -> Result<(), String> {
        if let Some(sw) = &case.sweep {
            return crate::sweep::run(sw, cx, crate::sweep::Rule::Announce);
        }
        let env = new_env();
        // a gateway with some history: "changes no gateway state" is only as strong as the state that is there
        let n_initial = 1 + (case.seed % 3) as u16;
        let retention = case.seed / 3 % 3;
        let rotations = (case.seed / 9 % 4) as u16;
        let initial: Vec<BuiltSet> = (0..n_initial).map(|i| simple_set(1 + i)).collect();
        let gw = deploy_gateway(&env, [1; 32], 0, retention, &initial).map_err(|e| format!("setup: {}", e))?;
        let mut newest = initial.last().unwrap().clone();
        for r in 0..rotations {
            let next = simple_set(50 + r);
            if !gw.rotate(&env, &next, &newest, newest.full_mask(), false) {
                return Err("setup: honest rotation refused".into());
            }
            newest = next;
        }
        if n_initial + rotations > retention as u16 + 2 {
            cx.label("signer_history_longer_than_the_retention_window");
        }
        if case.window_open {
            env.mock_all_auths();
            gw.client.upgrade(&BytesN::from_array(&env, &empty_wasm_hash()));
            cx.label("migration_window_open");
        }
        // gas service + example app for the "via an app" classes
        let gas = deploy_gas(&env);
        let example_id = env.register(example::Example, (&gw.id, &gas.id));
        let example_app = example::ExampleClient::new(&env, &example_id);
        let gas_asset = env.register_stellar_asset_contract_v2(Address::generate(&env)).address();
        let probe_id = env.register(Caller, ());
        let probe = CallerClient::new(&env, &probe_id);
        let acct = Address::generate(&env);
        let other = Address::generate(&env);
        let strkey = |a: &Address| -> Vec<u8> {
            let s = a.to_string();
            let mut buf = vec![0u8; s.len() as usize];
            s.copy_into_slice(&mut buf);
            buf
        };
        let keys = [strkey(&acct), strkey(&probe_id), strkey(&gw.id), strkey(&example_id)];
        let mut chain_b = resolve(&case.chain, case.seed ^ 1, &keys);
        let mut addr_b = resolve(&case.addr, case.seed ^ 2, &keys);
        if case.addr == Str::SameAsOther {
            addr_b = chain_b.clone();
        } else if case.chain == Str::SameAsOther {
            chain_b = addr_b.clone();
        }
        if matches!(case.addr, Str::Strkey(_)) {
            cx.label("destination_spelled_like_an_address_of_this_ledger");
        }
        let payload_b = shaped_bytes(case.seed, case.len as usize);
        let chain = sstr_bytes(&env, &chain_b);
        let addr = sstr_bytes(&env, &addr_b);
        let payload = Bytes::from_slice(&env, &payload_b);
        cx.nontrivial();
        cx.label(&format!("{:?}", case.sender));
        cx.label(match case.len {
            0 => "payload_empty",
            1..=33 => "payload_le_33",
            34..=134 => "payload_below_rate",
            135..=137 => "payload_at_keccak_rate",
            138..=5000 => "payload_multi_block",
            _ => "payload_tens_of_kilobytes",
        });

        let call_args = |who: &Address, p: &Bytes| (who.clone(), chain.clone(), addr.clone(), p.clone()).into_val(&env);
        // authorisation set-up first (mock_auths registers a mock account contract for the
        // authorising address, which is harness bookkeeping, not an effect of the call)
        let mut p2 = payload_b.clone();
        p2.push(0);
        let p2 = Bytes::from_slice(&env, &p2);
        match case.sender {
            Sender::AccountAuthorised => {
                let inv = MockAuthInvoke { contract: &gw.id, fn_name: "call_contract", args: call_args(&acct, &payload), sub_invokes: &[] };
                env.mock_auths(&[MockAuth { address: &acct, invoke: &inv }]);
            }
            Sender::AccountAuthorisedOtherDestination(which) => {
                let mut c2 = chain_b.clone();
                let mut a2 = addr_b.clone();
                if which {
                    c2.push(b'x');
                } else {
                    a2.push(b'x');
                }
                let args: soroban_sdk::Vec<soroban_sdk::Val> = (acct.clone(), sstr_bytes(&env, &c2), sstr_bytes(&env, &a2), payload.clone()).into_val(&env);
                let inv = MockAuthInvoke { contract: &gw.id, fn_name: "call_contract", args, sub_invokes: &[] };
                env.mock_auths(&[MockAuth { address: &acct, invoke: &inv }]);
            }
            Sender::AccountAuthorisedOtherPayload => {
                let inv = MockAuthInvoke { contract: &gw.id, fn_name: "call_contract", args: call_args(&acct, &p2), sub_invokes: &[] };
                env.mock_auths(&[MockAuth { address: &acct, invoke: &inv }]);
            }
            Sender::OtherAccountAuthorised => {
                let inv = MockAuthInvoke { contract: &gw.id, fn_name: "call_contract", args: call_args(&acct, &payload), sub_invokes: &[] };
                env.mock_auths(&[MockAuth { address: &other, invoke: &inv }]);
            }
            Sender::ViaExampleApp => {
                env.mock_all_auths();
                soroban_sdk::token::StellarAssetClient::new(&env, &gas_asset).mint(&acct, &10);
                env.mock_all_auths_allowing_non_root_auth();
            }
            Sender::ViaExampleAppUnauthorised => {
                env.mock_all_auths();
                soroban_sdk::token::StellarAssetClient::new(&env, &gas_asset).mint(&acct, &10);
                env.mock_auths(&[]);
            }
            Sender::AccountUnauthorisedAfterOwnInboundMessage => {
                let m = axelar_gateway::types::Message {
                    source_chain: sstr(&env, "ethereum"),
                    message_id: sstr(&env, "inbound-1"),
                    source_address: sstr(&env, "0xsrc"),
                    contract_address: acct.clone(),
                    payload_hash: BytesN::from_array(&env, &[9; 32]),
                };
                gw.approve(&env, &newest, &[m.clone()]).map_err(|e| format!("setup: {}", e))?;
                env.mock_all_auths();
                let consumed = gw.client.validate_message(&acct, &m.source_chain, &m.message_id, &m.source_address, &m.payload_hash);
                if !consumed {
                    return Err("setup: the account could not consume a message approved for it".into());
                }
                env.mock_auths(&[]);
            }
            _ => env.mock_auths(&[]),
        }
        let state0 = state_of(&env, &gw.id);
        let snap0 = snapshot(&env);
        let ev0 = events_len(&env);
        let epoch0 = gw.client.epoch();

        let (sender_addr, ok, expect_ok): (Address, bool, bool) = match case.sender {
            Sender::AccountAuthorised => {
                let r = gw.client.try_call_contract(&acct, &chain, &addr, &payload);
                (acct.clone(), matches!(r, Ok(Ok(()))), true)
            }
            Sender::AccountUnauthorised | Sender::AccountAuthorisedOtherPayload | Sender::AccountAuthorisedOtherDestination(_) | Sender::OtherAccountAuthorised | Sender::AccountUnauthorisedAfterOwnInboundMessage => {
                let r = gw.client.try_call_contract(&acct, &chain, &addr, &payload);
                (acct.clone(), matches!(r, Ok(Ok(()))), false)
            }
            Sender::ViaExampleApp | Sender::ViaExampleAppUnauthorised => {
                let tok = axelar_soroban_std::types::Token { address: gas_asset.clone(), amount: 1 };
                let r = example_app.try_send(&acct, &chain, &addr, &payload, &tok);
                (example_id.clone(), matches!(r, Ok(Ok(()))), case.sender == Sender::ViaExampleApp)
            }
            Sender::GatewayItselfNobodySigns => {
                let r = gw.client.try_call_contract(&gw.id, &chain, &addr, &payload);
                (gw.id.clone(), matches!(r, Ok(Ok(()))), false)
            }
            Sender::RoleHolderNotSigning(owner) => {
                let who = if owner { gw.owner.clone() } else { gw.operator.clone() };
                let r = gw.client.try_call_contract(&who, &chain, &addr, &payload);
                (who, matches!(r, Ok(Ok(()))), false)
            }
            Sender::ContractAsItself => {
                let r = probe.try_send(&gw.id, &chain, &addr, &payload);
                (probe_id.clone(), matches!(r, Ok(Ok(()))), true)
            }
            Sender::ContractNamingAnAccount => {
                let r = probe.try_send_as(&gw.id, &acct, &chain, &addr, &payload);
                (acct.clone(), matches!(r, Ok(Ok(()))), false)
            }
        };
        if expect_ok {
            cx.count("must_succeed");
            ensure_p!(ok, "authorised outbound call failed ({:?}, payload {} bytes)", case.sender, case.len);
            let evs: Vec<Ev> = events_since(&env, ev0).into_iter().filter(|e| e.0 == gw.id).collect();
            ensure_p!(evs.len() == 1, "expected exactly one gateway announcement, got {}", evs.len());
            let e = &evs[0];
            let h = keccak256(&payload_b);
            let want_topics = vec![sym("contract_called"), scv(&env, sender_addr.clone()), scv(&env, chain.clone()), scv(&env, addr.clone()), scv(&env, BytesN::from_array(&env, &h))];
            ensure_p!(e.1 == want_topics, "announcement topics wrong (sender / chain / address / independent keccak of the {}-byte payload): got {:?}", case.len, e.1);
            ensure_p!(e.2 == scv(&env, payload.clone()), "announcement data is not the full payload");
            ensure_p!(state_of(&env, &gw.id) == state0, "outbound call changed gateway state");
            ensure_p!(gw.client.epoch() == epoch0, "epoch changed");
        } else {
            cx.count("must_fail");
            ensure_p!(!ok, "outbound call succeeded without the sender's authorisation ({:?})", case.sender);
            ensure_p!(events_len(&env) == ev0, "refused outbound call emitted an event");
            ensure_p!(snapshot(&env) == snap0, "refused outbound call changed the ledger");
        }
        Ok(())
    }
}
