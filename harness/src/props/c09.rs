//! C09 — rotations are rate-limited unless the operator bypasses the delay.
//! The harness owns the ledger clock.

use super::gwgen::*;
use crate::engine::{Cx, Property, Tier};
use crate::ensure_p;
use crate::world::*;
use proptest::prelude::*;
#[allow(unused_imports)]
use crate::prop_oneof;
use serde::{Deserialize, Serialize};
use soroban_sdk::testutils::Ledger as _;

pub struct C09;

const DELAYS: [u64; 7] = [0, 1, 10, 3600, 86400, 1 << 63, u64::MAX];
const DEPLOY_TS: [u64; 3] = [0, 1, 1_700_000_000];

#[derive(Clone, Copy, Debug, Serialize, Deserialize, PartialEq, Eq)]
pub enum Dt {
    Zero,
    Small(u16),
    /// move the clock to last_success + delay + offset (if that is not in the past)
    ToBoundary(i8),
    /// advance by exactly delay + offset
    Delay(i8),
}

#[derive(Clone, Copy, Debug, Serialize, Deserialize, PartialEq, Eq)]
pub enum CandKind {
    Valid,
    InvalidThresholdZero,
    DuplicateOfLatest,
}

#[derive(Clone, Debug, Serialize, Deserialize, PartialEq, Eq)]
pub enum Step {
    Advance(Dt),
    Rotate {
        bypass: bool,
        operator_auth: bool,
        cand: CandKind,
        /// the proof comes from the previous (still retained) set instead of the latest one
        #[serde(default)]
        by_previous_set: bool,
        /// who signs (when `operator_auth`): 0 every authorisation is granted (as before), 1 exactly the current operator
        /// signs this call, 2 exactly the former operator does (a stranger if the role never moved)
        #[serde(default)]
        signer: u8,
    },
    /// the operator hands the role to a fresh address: from then on only that address can bypass the delay
    TransferOperatorship,
    /// the owner upgrades the gateway and completes the migration: delay setting and rotation clock are carried over
    UpgradeAndMigrate,
}

#[derive(Clone, Debug, Serialize, Deserialize)]
pub struct Case {
    pub delay: u8,
    pub deploy_ts: u8,
    pub steps: Vec<Step>,
}

fn dt() -> impl Strategy<Value = Dt> {
    prop_oneof![
        1 => Just(Dt::Zero),
        2 => (1u16..100).prop_map(Dt::Small),
        5 => (-1i8..=1).prop_map(Dt::ToBoundary),
        2 => (-1i8..=1).prop_map(Dt::Delay),
    ]
}

fn step() -> impl Strategy<Value = Step> {
    prop_oneof![
        2 => dt().prop_map(Step::Advance),
        1 => Just(Step::UpgradeAndMigrate),
        3 => (
            prop_oneof![3 => Just(false), 1 => Just(true)],
            prop_oneof![3 => Just(true), 1 => Just(false)],
            prop_oneof![6 => Just(CandKind::Valid), 1 => Just(CandKind::InvalidThresholdZero), 1 => Just(CandKind::DuplicateOfLatest)],
            prop_oneof![5 => Just(false), 1 => Just(true)],
            prop_oneof![2 => Just(0u8), 2 => Just(1u8), 1 => Just(2u8)]
        )
            .prop_map(|(bypass, operator_auth, cand, by_previous_set, signer)| Step::Rotate { bypass, operator_auth, cand, by_previous_set, signer }),
        1 => Just(Step::TransferOperatorship),
    ]
}

impl Property for C09 {
    type Case = Case;
    fn id(&self) -> &'static str {
        "C09"
    }
    fn rule(&self) -> &'static str {
        "proptest: minimum delay in {0,1,10,3600,86400,2^63,u64::MAX}, deployment timestamp in {0,1,1.7e9}, history of <=12 (quick) / <=20 (thorough) steps: Advance (0, small, to last_success+delay-1/+0/+1, by delay-1/+0/+1) and Rotate (bypass?, operator authorised?, candidate valid / invalid / duplicate) with the proof from the newest set or, sometimes, from the previous one (retention 1); the harness owns the forward-moving ledger clock; the ledger sequence number advances with it (one ledger per 5 s, bounded). Oracle: clock model last = time of the last successful rotation (deployment counts); non-bypass succeeds iff now-last >= delay and the candidate is acceptable; bypass needs operator authorisation and ignores the delay; success restarts the clock, failure leaves it (snapshot equality + later behaviour). non-trivial = delay > 0 and a non-bypass attempt lands within +-1s of the boundary, or a bypass success is followed by a non-bypass attempt; the gateway keeps 0, 1 or 5 previous signer sets (the rate limit must not depend on it)"
    }
    fn cases(&self, tier: Tier) -> u64 {
        tier.pick(20000, 300000)
    }
    fn strategy(&self, tier: Tier) -> BoxedStrategy<Case> {
        let n = tier.pick(12usize, 20usize);
        (0u8..21, 0u8..3, proptest::collection::vec(step(), 1..=n)).prop_map(|(delay, deploy_ts, steps)| Case { delay, deploy_ts, steps }).boxed()
    }
    fn fixed_cases(&self, _tier: Tier) -> Vec<Case> {
        let r = |bypass| Step::Rotate { bypass, operator_auth: true, cand: CandKind::Valid, by_previous_set: false, signer: 0 };
        vec![
            Case { delay: 2, deploy_ts: 2, steps: vec![Step::Advance(Dt::ToBoundary(-1)), r(false), Step::Advance(Dt::ToBoundary(0)), r(false), r(false), Step::Advance(Dt::ToBoundary(1)), r(false)] },
            Case { delay: 7 + 3, deploy_ts: 2, steps: vec![Step::Advance(Dt::Small(1)), r(false), Step::Advance(Dt::ToBoundary(0)), r(false), r(false)] },
            Case { delay: 14 + 2, deploy_ts: 1, steps: vec![r(false), Step::Advance(Dt::ToBoundary(-1)), r(false), Step::Advance(Dt::ToBoundary(0)), r(false)] },
            Case { delay: 3, deploy_ts: 1, steps: vec![r(true), Step::Advance(Dt::ToBoundary(-1)), r(false), Step::Advance(Dt::Small(1)), r(false)] },
            Case { delay: 3, deploy_ts: 0, steps: vec![Step::Advance(Dt::Delay(0)), Step::Rotate { bypass: false, operator_auth: true, cand: CandKind::DuplicateOfLatest, by_previous_set: false, signer: 0 }, r(false), r(false)] },
        ]
    }

    fn run(&self, case: &Case, cx: &mut Cx) -> Result<(), String> {
        let env = new_env();
        let d = DELAYS[case.delay as usize % 7];
        let t0 = DEPLOY_TS[case.deploy_ts as usize % 3];
        env.ledger().set_timestamp(t0);
        let g = |k: u16| SetGen { seeds: vec![k * 2, k * 2 + 1], w: vec![WClass::One, WClass::Small(1)], t: TClass::Total };
        let mut latest = g(0).build(0);
        let mut previous: Option<BuiltSet> = None;
        // retention 0, 1 or 5 (derived from the two configuration bytes so that saved cases keep their format): the
        // rate limit must not depend on how many old signer sets are kept
        let retention: u64 = [1, 0, 5][((case.delay / 7) as usize + (case.deploy_ts / 3) as usize) % 3];
        cx.label(&format!("retention_{}", retention));
        let gw = deploy_gateway(&env, [5; 32], d, retention, &[latest.clone()]).map_err(|e| format!("setup: {}", e))?;
        let mut now = t0;
        let mut last = t0;
        let mut n_sets: u16 = 1;
        let mut nontrivial = false;
        let mut bypass_succeeded = false;
        let mut seq_advanced: u32 = 0;
        let mut operator_now = gw.operator.clone();
        let mut former_operator: Option<soroban_sdk::Address> = None;
        let stranger = {
            use soroban_sdk::testutils::Address as _;
            soroban_sdk::Address::generate(&env)
        };
        cx.label(&format!("delay_{}", d));

        for (k, st) in case.steps.iter().enumerate() {
            match st {
                Step::UpgradeAndMigrate => {
                    upgrade_and_migrate(&env, &gw.id).map_err(|e| format!("step {}: {}", k, e))?;
                    cx.label("upgrade_and_migration_in_history");
                }
                Step::Advance(dt) => {
                    let target = match dt {
                        Dt::Zero => now,
                        Dt::Small(s) => now.saturating_add(*s as u64),
                        Dt::ToBoundary(off) => {
                            let b = last.checked_add(d);
                            match b {
                                Some(b) => {
                                    let t = if *off < 0 { b.saturating_sub(1) } else { b.saturating_add(*off as u64) };
                                    t.max(now)
                                }
                                None => now, // boundary beyond the end of time
                            }
                        }
                        Dt::Delay(off) => {
                            let step = if *off < 0 { d.saturating_sub(1) } else { d.saturating_add(*off as u64) };
                            now.saturating_add(step)
                        }
                    };
                    // keep clear of u64::MAX arithmetic in the host's own bookkeeping
                    let new_now = target.min(u64::MAX - 1);
                    // ledgers close about every 5 s: the sequence number moves with the clock (bounded, so that
                    // persistent entries - which live 6M ledgers in the test Env - never expire)
                    let ledgers = ((new_now - now) / 5).min(150_000) as u32;
                    if seq_advanced + ledgers <= 4_000_000 {
                        seq_advanced += ledgers;
                        env.ledger().set_sequence_number(env.ledger().sequence() + ledgers);
                    }
                    now = new_now;
                    env.ledger().set_timestamp(now);
                }
                Step::TransferOperatorship => {
                    use soroban_sdk::testutils::Address as _;
                    let next = soroban_sdk::Address::generate(&env);
                    env.mock_all_auths();
                    gw.client.transfer_operatorship(&next);
                    former_operator = Some(operator_now.clone());
                    operator_now = next;
                    cx.label("operatorship_transferred_in_history");
                    nontrivial = true;
                }
                Step::Rotate { bypass, operator_auth, cand, by_previous_set, signer } => {
                    let candidate = match cand {
                        CandKind::Valid => g(n_sets).build(n_sets as u8),
                        CandKind::InvalidThresholdZero => {
                            let mut b = g(n_sets).build(n_sets as u8);
                            b.threshold = 0;
                            b
                        }
                        CandKind::DuplicateOfLatest => latest.clone(),
                    };
                    let cand_ok = matches!(cand, CandKind::Valid);
                    let elapsed = now - last;
                    let delay_ok = elapsed >= d;
                    // proof from the previous set (retention is 1): only a bypass authorised by the operator may use it
                    let use_prev = *by_previous_set && previous.is_some();
                    let prover = if use_prev { previous.clone().unwrap() } else { latest.clone() };
                    if use_prev {
                        cx.label("proof_from_previous_set");
                    }
                    // (with retention 0 the previous set is no longer honoured at all)
                    // exact signer (account contracts are set up before the snapshot)
                    let exact: Option<soroban_sdk::Address> = match (*operator_auth, signer % 3) {
                        (true, 1) => Some(operator_now.clone()),
                        (true, 2) => Some(former_operator.clone().unwrap_or_else(|| stranger.clone())),
                        _ => None,
                    };
                    let signed_by_operator = *operator_auth && exact.as_ref().map(|a| *a == operator_now).unwrap_or(true);
                    if *bypass && exact.is_some() && former_operator.is_some() {
                        cx.label(if signed_by_operator { "bypass_signed_by_the_new_operator" } else { "bypass_signed_by_the_former_operator" });
                    }
                    let expect_ok = cand_ok && if *bypass { signed_by_operator && (!use_prev || retention >= 1) } else { delay_ok && !use_prev };
                    if !*bypass && d > 0 {
                        let near = (elapsed as i128 - d as i128).abs() <= 1;
                        if near {
                            nontrivial = true;
                            cx.label(if elapsed + 1 == d { "one_second_early" } else if elapsed == d { "exactly_at_boundary" } else { "one_second_late" });
                        }
                    }
                    if !*bypass && bypass_succeeded {
                        nontrivial = true;
                        cx.label("non_bypass_after_bypass");
                    }
                    let proof = prover.proof(&env, &digest(&gw.domain, &prover.hash(), &candidate.rotation_data_hash()), prover.full_mask());
                    let cand_s = candidate.to_soroban(&env);
                    match &exact {
                        Some(who) => {
                            use soroban_sdk::IntoVal;
                            let inv = soroban_sdk::testutils::MockAuthInvoke { contract: &gw.id, fn_name: "rotate_signers", args: (cand_s.clone(), proof.clone(), *bypass).into_val(&env), sub_invokes: &[] };
                            env.mock_auths(&[soroban_sdk::testutils::MockAuth { address: who, invoke: &inv }]);
                        }
                        None if *operator_auth => env.mock_all_auths(),
                        None => env.mock_auths(&[]),
                    }
                    let client = &gw.client;
                    let snap0 = snapshot(&env);
                    let r = client.try_rotate_signers(&cand_s, &proof, bypass);
                    let ok = matches!(r, Ok(Ok(())));
                    if expect_ok {
                        cx.count("must_succeed");
                        ensure_p!(ok, "step {}: rotation refused: delay {}, elapsed since last success {}, bypass {}, operator auth {}: {:?}", k, d, elapsed, bypass, operator_auth, r);
                        last = now;
                        previous = Some(latest.clone());
                        latest = candidate;
                        n_sets += 1;
                        if *bypass {
                            bypass_succeeded = true;
                            cx.label("bypass_success");
                        }
                    } else {
                        cx.count("must_fail");
                        ensure_p!(!ok, "step {}: rotation accepted: delay {}, elapsed since last success {}, bypass {}, operator auth {}, candidate {:?}", k, d, elapsed, bypass, operator_auth, cand);
                        ensure_p!(snapshot(&env) == snap0, "step {}: refused rotation changed the ledger (rotation clock?)", k);
                    }
                }
            }
        }
        if nontrivial {
            cx.nontrivial();
        }
        Ok(())
    }
}
