//! C01 — approvals need threshold-weight signatures from a live signer set.
//! One gateway history + one proof + at most one perturbation per case; the digest and the
//! acceptance predicate are computed independently (own Keccak + own XDR writer).

use super::gwgen::*;
use crate::engine::{Cx, Property, Tier};
use crate::ensure_p;
use crate::oracle::{keccak256, Sv};
use crate::world::*;
use axelar_gateway::types::Message;
use ed25519_dalek::Signer;
use proptest::prelude::*;
#[allow(unused_imports)]
use crate::prop_oneof;
use serde::{Deserialize, Serialize};
use soroban_sdk::testutils::Address as _;
use soroban_sdk::{Address, BytesN, Vec as SVec};

pub struct C01;

#[derive(Clone, Debug, Serialize, Deserialize, PartialEq, Eq)]
pub enum MaskKind {
    Full,
    /// exactly the threshold's subset (meaningful with TClass::Subset): signed weight == threshold
    ThresholdSubset,
    /// threshold subset with its lowest signer removed: just below
    ThresholdSubsetMinusOne,
    Random(u32),
    Prefix(u8),
}

#[derive(Clone, Debug, Serialize, Deserialize, PartialEq, Eq)]
pub enum Field {
    Chain,
    Id,
    Src,
    Dest,
    PayloadHash,
}

#[derive(Clone, Debug, Serialize, Deserialize, PartialEq, Eq)]
pub enum Perturb {
    None,
    // every signature made over a digest that differs in one bound component
    AllOtherDomain,
    AllOtherKind,
    AllOtherBatch,
    AllOtherSetHash,
    // one signature (k-th of the signing ones) corrupted
    OneOtherDomain(u8),
    OneByOtherKey(u8),
    OneBitFlip(u8, u16),
    OneUnsigned(u8),
    // declared-set tampering (signatures are made over the digest for the *true* set)
    DropSigner(u8),
    AddSigner(u16),
    DupSigner(u8),
    SwapSigners(u8),
    ChangeWeight(u8),
    LowerThreshold,
    ChangeNonce,
    // declared-set tampering with signatures re-made over the digest for the *tampered* set
    LowerThresholdResigned,
    DropSignerResigned(u8),
    // proof for batch B, submitted with B'
    SubmitDropMsg(u8),
    SubmitAddMsg,
    SubmitReorder,
    SubmitChangeField(u8, Field),
    /// the submitted batch repeats the approval slot (source chain, id) of its k-th message: an entry the signers never saw,
    /// differing from the signed one in another field, is put in front of the batch (true) or at its end (false)
    SubmitShadowSlot(u8, Field, bool),
    /// the k-th message appears a second time in the submitted batch (at the end), exactly as signed
    SubmitRepeatMsg(u8),
    // set that was never installed
    NeverInstalled,
}

#[derive(Clone, Debug, Serialize, Deserialize)]
pub struct Case {
    pub domain: u8,
    pub retention: u8,
    pub initial: Vec<SetGen>,
    pub rotations: Vec<SetGen>,
    /// which installed set proves (monotone index over all installed sets, newest first)
    pub prover: u16,
    pub mask: MaskKind,
    pub batch: Vec<MsgSpec>,
    pub perturb: Perturb,
    pub via_validate_proof: bool,
    /// bitmask over the submitted batch: these messages were honestly approved in an earlier call
    #[serde(default)]
    pub pre_approved: u8,
    /// before the studied submission the proving set honestly approves an unrelated message and passes a
    /// standalone proof check (an accepted proof must leave nothing behind that helps a later one)
    #[serde(default)]
    pub warmup: bool,
    /// the studied submission, byte for byte, is shown to the gateway already while the history is being made - right
    /// after the proving set was installed (before the rotations that follow it): 0 no, 1 to the standalone proof check,
    /// 2 to the entry point studied later. A verdict reached then says nothing about later.
    #[serde(default)]
    pub shown_early: u8,
    /// entry-point sweep case (see sweep.rs); the other fields are ignored
    #[serde(default)]
    pub sweep: Option<crate::sweep::SweepCase>,
}

fn msgspec() -> impl Strategy<Value = MsgSpec> {
    (0u8..3, 0u8..3, 0u8..3, 0u8..4).prop_map(|(c, s, dest, ph)| MsgSpec {
        chain: ["ethereum", "avalanche", ""][c as usize].to_string(),
        id: String::new(), // filled by position
        src: ["0xabc", "addr-2", ""][s as usize].to_string(),
        dest,
        ph,
    })
}

fn perturb() -> impl Strategy<Value = Perturb> {
    prop_oneof![
        6 => Just(Perturb::None),
        1 => Just(Perturb::AllOtherDomain),
        1 => Just(Perturb::AllOtherKind),
        1 => Just(Perturb::AllOtherBatch),
        1 => Just(Perturb::AllOtherSetHash),
        1 => (0u8..8).prop_map(Perturb::OneOtherDomain),
        1 => (0u8..8).prop_map(Perturb::OneByOtherKey),
        1 => (0u8..8, 0u16..512).prop_map(|(a, b)| Perturb::OneBitFlip(a, b)),
        1 => (0u8..8).prop_map(Perturb::OneUnsigned),
        1 => (0u8..8).prop_map(Perturb::DropSigner),
        1 => (400u16..500).prop_map(Perturb::AddSigner),
        1 => (0u8..8).prop_map(Perturb::DupSigner),
        1 => (0u8..8).prop_map(Perturb::SwapSigners),
        1 => (0u8..8).prop_map(Perturb::ChangeWeight),
        1 => Just(Perturb::LowerThreshold),
        1 => Just(Perturb::ChangeNonce),
        1 => Just(Perturb::LowerThresholdResigned),
        1 => (0u8..8).prop_map(Perturb::DropSignerResigned),
        1 => (0u8..4).prop_map(Perturb::SubmitDropMsg),
        1 => Just(Perturb::SubmitAddMsg),
        1 => Just(Perturb::SubmitReorder),
        1 => (0u8..4, prop_oneof![Just(Field::Chain), Just(Field::Id), Just(Field::Src), Just(Field::Dest), Just(Field::PayloadHash)]).prop_map(|(i, f)| Perturb::SubmitChangeField(i, f)),
        1 => Just(Perturb::NeverInstalled),
        2 => (0u8..4, prop_oneof![Just(Field::Src), Just(Field::Dest), Just(Field::PayloadHash)], any::<bool>()).prop_map(|(i, f, front)| Perturb::SubmitShadowSlot(i, f, front)),
        1 => (0u8..4).prop_map(Perturb::SubmitRepeatMsg),
    ]
}

fn maskkind() -> impl Strategy<Value = MaskKind> {
    prop_oneof![
        2 => Just(MaskKind::Full),
        4 => Just(MaskKind::ThresholdSubset),
        2 => Just(MaskKind::ThresholdSubsetMinusOne),
        3 => any::<u32>().prop_map(MaskKind::Random),
        1 => (0u8..9).prop_map(MaskKind::Prefix),
    ]
}

struct Submission {
    proof: ProofData,
    msgs: Vec<(Vec<u8>, Vec<u8>, Vec<u8>, u8, [u8; 32])>, // chain, id, src, dest idx, payload hash
}

fn resolve_batch(b: &[MsgSpec]) -> Vec<(Vec<u8>, Vec<u8>, Vec<u8>, u8, [u8; 32])> {
    b.iter()
        .enumerate()
        .map(|(i, m)| {
            (m.chain.as_bytes().to_vec(), format!("m{}", i).into_bytes(), m.src.as_bytes().to_vec(), m.dest, h32("ph", m.ph as u64))
        })
        .collect()
}

impl Property for C01 {
    type Case = Case;
    fn id(&self) -> &'static str {
        "C01"
    }
    fn rule(&self) -> &'static str {
        "proptest single cases: gateway config (domain, retention 0-3 or u64::MAX(-1), 1-3 initial sets, 0-4 honest rotations), signer sets of 1-8 keys with weights from {1, small, 2^64, u128::MAX - rest} and thresholds from {1, total, total-1, subset sums}, a signing subset (full / exactly the threshold subset / one short / random bitmask / prefix), a batch of 1-4 messages of which any subset may have been honestly approved in an earlier call, optionally right after accepted proofs by the same set, and at most one perturbation (digest component, per-signature corruption, declared-set tampering with or without re-signing, batch substitution, never-installed set) - batch substitutions include an entry the signers never saw that repeats the (chain, id) of a signed message, in front or at the end, and a signed message listed twice -; the studied submission may have been shown, byte for byte, to the standalone check or the studied entry point right after its signer set was installed; both validate_proof and approve_messages. Oracle: digest = own keccak(domain || keccak(ownXDR(set)) || keccak(ownXDR((kind,batch)))), acceptance = set installed and within retention and weight of verify_strict-valid signatures >= threshold. non-trivial = perturbation present, or signing subset not a prefix, or signed weight == threshold exactly; distinct by Debug hash. A share of the random cases is an entry-point sweep (construction as described for C13: the exported functions of all shipped contracts read from the sources of the tree under test, a complete deployed system, pooled arguments - including well-formed signer sets nobody installed and proofs properly signed by the gateway's own signer set over digests that belong to no command -, every require_auth satisfied by the host's mock and recorded; entry points absent from the pinned inventory get 300 deterministic cases each); oracle: no call approves a message (status of pre-approved and fresh ids, message_approved events) since no valid proof for any approval exists in these cases; non-trivial = the call succeeded"
    }
    fn assumptions(&self) -> Vec<&'static str> {
        vec!["a proof whose valid signatures already reach the threshold but which also carries an invalid signature is unconstrained by the statement (Either)"]
    }
    fn cases(&self, tier: Tier) -> u64 {
        tier.pick(30000, 400000)
    }
    fn strategy(&self, _tier: Tier) -> BoxedStrategy<Case> {
        let direct = direct_strategy();
        match crate::sweep::strategy(crate::sweep::Rule::Proofless) {
            Some(sw) => prop_oneof![9 => direct, 1 => (sw, direct_strategy()).prop_map(|(s, mut c)| {
                c.sweep = Some(s);
                c
            })]
            .boxed(),
            None => direct,
        }
    }
    fn fixed_cases(&self, _tier: Tier) -> Vec<Case> {
        let blank = Case { domain: 0, retention: 0, initial: vec![], rotations: vec![], prover: 0, mask: MaskKind::Full, batch: vec![], perturb: Perturb::None, via_validate_proof: false, pre_approved: 0, warmup: false, shown_early: 0, sweep: None };
        crate::sweep::fixed_cases(300).into_iter().map(|s| Case { sweep: Some(s), ..blank.clone() }).collect()
    }

    fn run(&self, case: &Case, cx: &mut Cx) -> Result<(), String> {
        if let Some(sw) = &case.sweep {
            return crate::sweep::run(sw, cx, crate::sweep::Rule::Proofless);
        }
        self.run_direct(case, cx)
    }
}

fn direct_strategy() -> BoxedStrategy<Case> {
    {
        (
            (any::<u8>(), 0u8..6, proptest::collection::vec(setgen(8), 1..4), proptest::collection::vec(setgen(8), 0..5)),
            (prop_oneof![3 => Just(0u16), 2 => any::<u16>()], maskkind(), proptest::collection::vec(msgspec(), 1..5), perturb(), any::<bool>(), prop_oneof![3 => Just(0u8), 1 => Just(0xffu8), 1 => any::<u8>()], prop_oneof![2 => Just(false), 1 => Just(true)], prop_oneof![3 => Just(0u8), 1 => Just(1u8), 1 => Just(2u8)]),
        )
            .prop_map(|((domain, retention, initial, rotations), (prover, mask, batch, perturb, via, pre_approved, warmup, shown_early))| Case {
                domain,
                retention,
                initial,
                rotations,
                prover,
                mask,
                batch,
                perturb,
                via_validate_proof: via,
                pre_approved,
                warmup,
                shown_early,
                sweep: None,
            })
            .boxed()
    }
}

impl C01 {
    fn run_direct(&self, case: &Case, cx: &mut Cx) -> Result<(), String> {
        let env = new_env();
        let domain = [case.domain; 32];
        // all sets, distinct by nonce = position
        let mut sets: Vec<BuiltSet> = vec![];
        for (i, g) in case.initial.iter().chain(case.rotations.iter()).enumerate() {
            sets.push(g.build(i as u8));
        }
        let n_init = case.initial.len();
        let retention: u64 = match case.retention { 0..=3 => case.retention as u64, 4 => u64::MAX, _ => u64::MAX - 1 };
        let gw = deploy_gateway(&env, domain, 0, retention, &sets[..n_init]).map_err(|e| format!("setup: gateway construction failed: {}", e))?;
        let mut model = SignerModel { retention, ..Default::default() };
        for s in &sets[..n_init] {
            model.install(s.hash());
        }
        let dests: Vec<Address> = (0..3).map(|_| Address::generate(&env)).collect();
        // prover: newest first
        let pi = sets.len() - 1 - pick(case.prover, sets.len());
        let mut prover = sets[pi].clone();
        if case.perturb == Perturb::NeverInstalled {
            prover = SetGen { seeds: vec![900, 901, 902], w: vec![WClass::One; 3], t: TClass::Total }.build(200);
            cx.label("never_installed_set");
        }
        // signing mask
        let full = prover.full_mask();
        let tmask = {
            // a subset whose weight equals the threshold, if the set was generated that way
            let g = case.initial.iter().chain(case.rotations.iter()).nth(pi);
            match (g.map(|g| g.t), &case.perturb) {
                (Some(TClass::Subset(m)), p) if *p != Perturb::NeverInstalled && (m & full) != 0 => m & full,
                _ => full,
            }
        };
        let mask = match &case.mask {
            MaskKind::Full => full,
            MaskKind::ThresholdSubset => tmask,
            MaskKind::ThresholdSubsetMinusOne => tmask & (tmask - 1),
            MaskKind::Random(m) => m & full,
            MaskKind::Prefix(k) => ((1u32 << (*k as u32).min(prover.len() as u32)) - 1) & full,
        };

        // batch signed and batch submitted
        let signed_batch = resolve_batch(&case.batch);
        let mut submitted = signed_batch.clone();
        match &case.perturb {
            Perturb::SubmitDropMsg(i) if submitted.len() > 1 => {
                let k = *i as usize % submitted.len();
                submitted.remove(k);
            }
            Perturb::SubmitAddMsg => submitted.push((b"extra".to_vec(), b"extra-id".to_vec(), b"x".to_vec(), 0, h32("ph", 99))),
            Perturb::SubmitReorder if submitted.len() > 1 => submitted.reverse(),
            Perturb::SubmitShadowSlot(i, f, front) => {
                let k = *i as usize % submitted.len();
                let mut m = submitted[k].clone();
                match f {
                    Field::Dest => m.3 = (m.3 + 1) % 3,
                    Field::PayloadHash => m.4[31] ^= 1,
                    _ => m.2.push(b'x'),
                }
                if *front {
                    submitted.insert(0, m);
                } else {
                    submitted.push(m);
                }
            }
            Perturb::SubmitRepeatMsg(i) => {
                let k = *i as usize % submitted.len();
                let m = submitted[k].clone();
                submitted.push(m);
            }
            Perturb::SubmitChangeField(i, f) => {
                let k = *i as usize % submitted.len();
                let m = &mut submitted[k];
                match f {
                    Field::Chain => m.0.push(b'x'),
                    Field::Id => m.1.push(b'x'),
                    Field::Src => m.2.push(b'x'),
                    Field::Dest => m.3 = (m.3 + 1) % 3,
                    Field::PayloadHash => m.4[31] ^= 1,
                }
            }
            _ => {}
        }
        let to_sv = |b: &Vec<(Vec<u8>, Vec<u8>, Vec<u8>, u8, [u8; 32])>| -> Vec<Sv> {
            b.iter().map(|m| msg_sv(&m.0, &m.1, &m.2, &addr_sv(&dests[m.3 as usize]), &m.4)).collect()
        };
        let signed_dh = approve_data_hash(&to_sv(&signed_batch));
        let submitted_dh = approve_data_hash(&to_sv(&submitted));

        // the digest the honest signers sign
        let true_hash = prover.hash();
        let honest_digest = digest(&domain, &true_hash, &signed_dh);
        let other_domain = {
            let mut d = domain;
            d[0] ^= 0xff;
            d
        };
        let other_kind_dh = keccak256(&Sv::Vec(vec![Sv::Vec(vec![Sv::sym("RotateSigners")]), Sv::Vec(to_sv(&signed_batch))]).xdr());
        let all_digest = match &case.perturb {
            Perturb::AllOtherDomain => digest(&other_domain, &true_hash, &signed_dh),
            Perturb::AllOtherKind => digest(&domain, &true_hash, &other_kind_dh),
            Perturb::AllOtherBatch => digest(&domain, &true_hash, &h32("other-batch", 0)),
            Perturb::AllOtherSetHash => digest(&domain, &sets[(pi + 1) % sets.len()].rotation_data_hash(), &signed_dh),
            _ => honest_digest,
        };
        let mut proof = ProofData::honest(&prover, &all_digest, mask);
        let signing: Vec<usize> = (0..prover.len()).filter(|i| mask >> i & 1 == 1).collect();
        let kth = |k: u8| -> Option<usize> {
            if signing.is_empty() {
                None
            } else {
                Some(signing[k as usize % signing.len()])
            }
        };
        let n = proof.entries.len();
        match &case.perturb {
            Perturb::OneOtherDomain(k) => {
                if let Some(i) = kth(*k) {
                    proof.entries[i].2 = Some(prover.sks[i].sign(&digest(&other_domain, &true_hash, &signed_dh)).to_bytes());
                }
            }
            Perturb::OneByOtherKey(k) => {
                if let Some(i) = kth(*k) {
                    proof.entries[i].2 = Some(signing_key(777).sign(&honest_digest).to_bytes());
                }
            }
            Perturb::OneBitFlip(k, bit) => {
                if let Some(i) = kth(*k) {
                    if let Some(s) = proof.entries[i].2.as_mut() {
                        s[(*bit / 8) as usize % 64] ^= 1 << (bit % 8);
                    }
                }
            }
            Perturb::OneUnsigned(k) => {
                if let Some(i) = kth(*k) {
                    proof.entries[i].2 = None;
                }
            }
            Perturb::DropSigner(k) | Perturb::DropSignerResigned(k) if n > 1 => {
                proof.entries.remove(*k as usize % n);
            }
            Perturb::AddSigner(seed) => {
                let sk = signing_key(*seed);
                let pk = sk.verifying_key().to_bytes();
                let pos = proof.entries.iter().position(|e| e.0 > pk).unwrap_or(n);
                proof.entries.insert(pos, (pk, 1, Some(sk.sign(&honest_digest).to_bytes())));
            }
            Perturb::DupSigner(k) => {
                let i = *k as usize % n;
                let e = proof.entries[i].clone();
                proof.entries.insert(i, e);
            }
            Perturb::SwapSigners(k) if n > 1 => {
                let i = *k as usize % (n - 1);
                proof.entries.swap(i, i + 1);
            }
            Perturb::ChangeWeight(k) => {
                let i = *k as usize % n;
                proof.entries[i].1 = proof.entries[i].1.wrapping_add(1).max(1);
            }
            Perturb::LowerThreshold | Perturb::LowerThresholdResigned => {
                proof.threshold = (proof.threshold - 1).max(1);
                if proof.threshold == prover.threshold {
                    proof.threshold += 1; // threshold 1: raise instead, still a tampering
                }
            }
            Perturb::ChangeNonce => proof.nonce[0] ^= 1,
            _ => {}
        }
        if matches!(case.perturb, Perturb::LowerThresholdResigned | Perturb::DropSignerResigned(_)) {
            // the attacker re-signs (with the true keys it controls: all of them) for the tampered declaration
            let dh = proof.declared_hash();
            let dg = digest(&domain, &dh, &signed_dh);
            for e in proof.entries.iter_mut() {
                if e.2.is_some() {
                    let idx = prover.pks.iter().position(|p| *p == e.0).unwrap();
                    e.2 = Some(prover.sks[idx].sign(&dg).to_bytes());
                }
            }
        }
        let sub = Submission { proof, msgs: submitted.clone() };
        // ---------------- history (the studied proof may be shown to the gateway while it is being made, see `shown_early`)
        let mut early_approved = false;
        let mut show_early = |when: usize| {
            if case.shown_early % 3 == 0 || when != pi.max(n_init - 1) {
                return;
            }
            let proof = sub.proof.to_soroban(&env);
            if case.shown_early % 3 == 1 || case.via_validate_proof {
                let _ = gw.client.try_validate_proof(&BytesN::from_array(&env, &submitted_dh), &proof);
            } else {
                let mut msgs = SVec::new(&env);
                for m in &sub.msgs {
                    msgs.push_back(Message {
                        source_chain: sstr_bytes(&env, &m.0),
                        message_id: sstr_bytes(&env, &m.1),
                        source_address: sstr_bytes(&env, &m.2),
                        contract_address: dests[m.3 as usize].clone(),
                        payload_hash: BytesN::from_array(&env, &m.4),
                    });
                }
                early_approved = matches!(gw.client.try_approve_messages(&msgs, &proof), Ok(Ok(())));
            }
            cx.label("studied_submission_shown_early_in_the_history");
        };
        show_early(n_init - 1);
        for i in n_init..sets.len() {
            let prev = sets[i - 1].clone();
            let ok = gw.rotate(&env, &sets[i], &prev, prev.full_mask(), false);
            ensure_p!(ok, "setup: honest rotation {} by the latest set was refused", i);
            model.install(sets[i].hash());
            show_early(i);
        }
        ensure_p!(gw.client.epoch() == model.epoch, "epoch {} != model {}", gw.client.epoch(), model.epoch);
        // the gateway may have been idle for a while (days derived from the domain byte so that saved cases keep their
        // format): registered sets inside the window stay registered
        let days_idle = [0u32, 0, 0, 0, 1, 61, 100, 150][(case.domain % 8) as usize];
        if days_idle > 0 {
            advance_ledgers(&env, 17280 * days_idle);
            cx.label(if days_idle > 60 { "gateway_idle_for_more_than_60_days" } else { "gateway_idle_for_a_day" });
        }
        if case.domain / 32 % 2 == 1 {
            // somebody re-delivers a rotation to a set that is already registered (signed by the latest set): whatever the
            // gateway answers, no set may age by it
            let latest = sets.last().unwrap().clone();
            let again = sets[pick(case.prover, sets.len())].clone();
            let _ = gw.rotate(&env, &again, &latest, latest.full_mask(), false);
            cx.label("rotation_to_a_registered_set_attempted_before_the_submission");
        }
        if case.domain / 8 % 4 == 3 {
            // the owner upgraded the gateway and completed the migration: signer sets, retention and domain are carried over
            upgrade_and_migrate(&env, &gw.id).map_err(|e| format!("setup: {}", e))?;
            cx.label("gateway_upgraded_and_migrated_before_the_submission");
        }
        let age = model.epoch - model.by_hash.get(&prover.hash()).copied().unwrap_or(0);
        if model.by_hash.contains_key(&prover.hash()) {
            if age == 0 {
                cx.label("prover_latest");
            } else if age <= model.retention {
                cx.label("prover_older_retained");
            } else {
                cx.label("prover_outdated");
            }
        }


        // ---------------- oracle
        let declared_hash = sub.proof.declared_hash();
        let true_digest = digest(&domain, &declared_hash, &submitted_dh);
        let live = model.live(&declared_hash);
        let (valid_w, invalid) = sub.proof.valid_weight(&true_digest);
        let reaches = match valid_w {
            Some(w) => w >= sub.proof.threshold,
            None => true, // cannot overflow for an installed set; declared sets that overflow are not installed
        };
        #[derive(PartialEq, Debug)]
        enum E {
            Ok,
            Fail,
            Either,
        }
        let expect = if !live || !reaches {
            E::Fail
        } else if invalid == 0 {
            E::Ok
        } else {
            E::Either
        };
        match expect {
            E::Ok => cx.count("must_succeed"),
            E::Fail => cx.count("must_fail"),
            E::Either => cx.count("either"),
        }
        if case.perturb != Perturb::None {
            cx.nontrivial();
            cx.label(&format!("perturb:{}", format!("{:?}", case.perturb).split('(').next().unwrap()));
        }
        let is_prefix = mask & (mask + 1) == 0;
        if !is_prefix {
            cx.nontrivial();
            cx.label("non_prefix_subset");
        }
        if valid_w == Some(sub.proof.threshold) && live {
            cx.nontrivial();
            cx.label("exact_threshold");
        }
        if prover.weights.iter().any(|w| *w > u64::MAX as u128) {
            cx.label("huge_weights");
        }

        // ---------------- earlier honest approvals of some of the submitted ids (by the latest set)
        let mut already: Vec<bool> = vec![false; sub.msgs.len()];
        if early_approved {
            // the whole submitted batch was accepted back then: per slot, its first content is what got approved
            for i in 0..sub.msgs.len() {
                let m = &sub.msgs[i];
                let first = sub.msgs.iter().find(|q| q.0 == m.0 && q.1 == m.1).unwrap();
                already[i] = first == m;
            }
            cx.label("studied_batch_was_approved_when_shown_early");
            cx.nontrivial();
        } else if !case.via_validate_proof && case.pre_approved != 0 {
            let latest = sets.last().unwrap();
            let mut pre: Vec<Message> = vec![];
            for (i, m) in sub.msgs.iter().enumerate() {
                if case.pre_approved >> (i % 8) & 1 == 1 {
                    // (a repeated approval slot: only the first content submitted for it is what gets approved)
                    if sub.msgs[..i].iter().enumerate().any(|(j, q)| already[j] && q.0 == m.0 && q.1 == m.1) {
                        continue;
                    }
                    already[i] = true;
                    pre.push(Message {
                        source_chain: sstr_bytes(&env, &m.0),
                        message_id: sstr_bytes(&env, &m.1),
                        source_address: sstr_bytes(&env, &m.2),
                        contract_address: dests[m.3 as usize].clone(),
                        payload_hash: BytesN::from_array(&env, &m.4),
                    });
                }
            }
            // what is approved now: every submitted entry equal to the first content pre-approved for its slot
            for i in 0..sub.msgs.len() {
                let m = &sub.msgs[i];
                let first = sub.msgs.iter().enumerate().find(|(j, q)| already[*j] && q.0 == m.0 && q.1 == m.1).map(|(_, q)| q.clone());
                if let Some(q) = first {
                    already[i] = q == *m;
                }
            }
            if !pre.is_empty() {
                gw.approve(&env, latest, &pre).map_err(|e| format!("setup: earlier honest approval refused: {}", e))?;
                cx.label(if already.iter().all(|x| *x) { "whole_batch_already_approved" } else { "part_of_batch_already_approved" });
                cx.nontrivial();
            }
        }

        // ---------------- warm-up: honest, accepted proofs by the same set just before
        if case.warmup && model.live(&prover.hash()) {
            let unrelated = Message {
                source_chain: sstr(&env, "warmup-chain"),
                message_id: sstr(&env, "warmup-id"),
                source_address: sstr(&env, "w"),
                contract_address: dests[0].clone(),
                payload_hash: BytesN::from_array(&env, &h32("warmup", 0)),
            };
            gw.approve(&env, &prover, &[unrelated]).map_err(|e| format!("setup: warm-up approval by a live set refused: {}", e))?;
            let dh = h32("warmup-data", 1);
            let wp = prover.proof(&env, &digest(&domain, &prover.hash(), &dh), prover.full_mask());
            ensure_p!(matches!(gw.client.try_validate_proof(&BytesN::from_array(&env, &dh), &wp), Ok(Ok(_))), "setup: warm-up proof check by a live set refused");
            cx.label("after_accepted_proofs_by_the_same_set");
        }

        // ---------------- act
        let proof = sub.proof.to_soroban(&env);
        let snap0 = snapshot(&env);
        let ev0 = events_len(&env);
        if case.via_validate_proof {
            cx.label("via_validate_proof");
            let r = gw.client.try_validate_proof(&BytesN::from_array(&env, &submitted_dh), &proof);
            let ok = matches!(r, Ok(Ok(_)));
            match expect {
                E::Ok => ensure_p!(ok, "honest / sufficient proof refused by validate_proof: {:?}", r),
                E::Fail => ensure_p!(!ok, "validate_proof accepted a submission the statement rejects (live={}, valid weight={:?}, threshold={}, invalid sigs={})", live, valid_w, sub.proof.threshold, invalid),
                E::Either => {}
            }
            if let Ok(Ok(latest)) = r {
                ensure_p!(latest == model.is_latest(&declared_hash), "validate_proof returned is_latest={} but the set's epoch says {}", latest, model.is_latest(&declared_hash));
            }
            if !ok {
                // "every other submission is rejected and changes nothing" (an accepted check may e.g. extend TTLs)
                ensure_p!(snapshot(&env) == snap0 && events_len(&env) == ev0, "a rejected proof check changed state or emitted events");
            }
        } else {
            let mut msgs = SVec::new(&env);
            let mut ms: Vec<Message> = vec![];
            for m in &sub.msgs {
                let msg = Message {
                    source_chain: sstr_bytes(&env, &m.0),
                    message_id: sstr_bytes(&env, &m.1),
                    source_address: sstr_bytes(&env, &m.2),
                    contract_address: dests[m.3 as usize].clone(),
                    payload_hash: BytesN::from_array(&env, &m.4),
                };
                msgs.push_back(msg.clone());
                ms.push(msg);
            }
            let r = gw.client.try_approve_messages(&msgs, &proof);
            let ok = matches!(r, Ok(Ok(())));
            match expect {
                E::Ok => ensure_p!(ok, "honest / sufficient proof refused by approve_messages: {:?}", r),
                E::Fail => ensure_p!(!ok, "approve_messages accepted a submission the statement rejects (live={}, valid weight={:?}, threshold={}, invalid sigs={})", live, valid_w, sub.proof.threshold, invalid),
                E::Either => {}
            }
            let approved = |m: &Message| gw.client.is_message_approved(&m.source_chain, &m.message_id, &m.source_address, &m.contract_address, &m.payload_hash);
            if ok {
                let evs = events_since(&env, ev0);
                let fresh: Vec<&Message> = ms.iter().enumerate().filter(|(i, _)| !already[*i]).map(|(_, m)| m).collect();
                ensure_p!(evs.len() == fresh.len(), "expected {} message_approved events (ids not approved before), got {}", fresh.len(), evs.len());
                for (e, m) in evs.iter().zip(fresh.iter()) {
                    ensure_p!(e.0 == gw.id && e.1.len() == 2 && e.1[0] == sym("message_approved") && e.1[1] == scv(&env, (*m).clone()), "message_approved event does not name the approved message: {:?}", e);
                }
                for m in &ms {
                    ensure_p!(approved(m), "approved batch member is not reported approved");
                }
            } else {
                ensure_p!(snapshot(&env) == snap0, "rejected approval changed the ledger");
                ensure_p!(events_len(&env) == ev0, "rejected approval emitted events");
                for (i, m) in ms.iter().enumerate() {
                    ensure_p!(approved(m) == already[i], "approval status of a batch member changed by a rejected submission");
                }
            }
        }
        Ok(())
    }
}
