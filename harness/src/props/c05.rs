//! C05 — interchain transfers conserve value and announce exactly what was taken.
//! Histories over tokens of both kinds against a balance / custody / supply ledger model.

use crate::engine::{Cx, Property, Tier};
use crate::ensure_p;
use crate::itsw::*;
use crate::oracle::{keccak256, word_u128, AHub, AMsg, word_u64};
use crate::probes::{TokenExec, TokenExecClient};
use crate::world::*;
use axelar_soroban_std::types::Token;
use proptest::prelude::*;
#[allow(unused_imports)]
use crate::prop_oneof;
use serde::{Deserialize, Serialize};
use soroban_sdk::token::TokenClient;
use soroban_sdk::xdr::ScVal;
use soroban_sdk::testutils::Address as _;
use soroban_sdk::{Address, Bytes, BytesN, IntoVal};

pub struct C05;

const HUB_ADDR: &str = "axelar1hub";
// (one trusted name has upper-case letters: names are compared and announced as they were given)
// (the third name is the token service's own chain name: a chain name like any other once the owner trusts it)
const CHAINS: [&str; 3] = ["ethereum", "Avalanche-Fuji", "stellar"];
const NU: usize = 4; // users
const START_ASSET: i128 = 1000;
const START_GAS: i128 = 50;

#[derive(Clone, Copy, Debug, Serialize, Deserialize, PartialEq, Eq)]
pub enum Amt {
    Zero,
    Neg,
    One,
    Small(u8),
    Bal,
    BalPlus1,
    Custody,
    CustodyPlus1,
}

#[derive(Clone, Copy, Debug, Serialize, Deserialize, PartialEq, Eq)]
pub enum GasA {
    Zero,
    Neg,
    One,
    All,
    AllPlus1,
}

#[derive(Clone, Copy, Debug, Serialize, Deserialize, PartialEq, Eq)]
pub enum NCfg {
    Supply1000NoMinter,
    Supply0Minter,
    Supply0NoMinter,
}

#[derive(Clone, Debug, Serialize, Deserialize, PartialEq, Eq)]
pub enum Op {
    Deploy { slot: u8, cfg: NCfg },
    Register { slot: u8 },
    Out { user: u8, tok: u8, chain: u8, amount: Amt, data: Option<u8>, gas: GasA },
    In { tok: u8, to: u8, origin: u8, amount: Amt, data: Option<u8> },
    Trust(u8),
    Untrust(u8),
    MinterMint { slot: u8, to: u8, amount: u8 },
    OutUnknownToken { user: u8 },
    /// outbound transfer to a chain name that differs from a trusted one only in letter case / a trailing space
    OutLookalikeChain { user: u8, tok: u8, chain: u8, space: bool },
    /// outbound transfer of a canonical asset whose gas is paid in that same asset
    OutGasInSameToken { user: u8, slot: u8, chain: u8, amount: u8, gas: u8 },
    /// approved inbound transfer whose announced amount is above 2^127-1 (hand-encoded): must be refused, not truncated
    InOutOfRangeAmount { tok: u8, to: u8, origin: u8, low: u8, which: u8 },
    AdvanceDays(u8),
    /// approved hub message asking to deploy a token under the id of a token the history already knows
    /// (service-deployed or canonical): whatever the service answers, the known token's accounting must go on unchanged
    InDeployForKnownToken { tok: u8, origin: u8 },
    /// the owner upgrades the token service and completes the migration: registry, trusted chains and custody are carried over
    UpgradeAndMigrate,
    /// anybody registers a token the service deployed itself as a canonical token (a second id for the same contract;
    /// whatever the service answers, transfers under the first id must go on burning and minting)
    RegisterDeployedAsCanonical { slot: u8 },
    /// the issuer of a canonical Stellar asset hands its admin role to the token service (before or after the asset is
    /// registered): registered assets stay lock/unlock tokens, custody accounting goes on unchanged
    IssuerHandsAdminToService { slot: u8 },
    /// somebody (signing nothing, or signing only the outermost call as a stranger) names the token service itself as the
    /// payer of a remote canonical deployment (how 0) or as the sender of a transfer (how 1), with the gas stated in a
    /// canonical asset the service holds in custody: custody is what users locked, it must not be spent. how 2: a transfer
    /// of that canonical asset naming the service as sender, the gas stated in a token anybody could deploy (its
    /// `transfer` asks nobody): nothing can be taken from the sender into custody, so it cannot be a transfer
    ServiceNamedAsPayer { slot: u8, chain: u8, amount: Amt, how: u8, stranger_signs: bool },
}

#[derive(Clone, Debug, Serialize, Deserialize)]
pub struct Case {
    pub ops: Vec<Op>,
    /// entry-point sweep case (see sweep.rs); `ops` is ignored
    #[serde(default)]
    pub sweep: Option<crate::sweep::SweepCase>,
}

fn amt() -> impl Strategy<Value = Amt> {
    prop_oneof![
        1 => Just(Amt::Zero),
        1 => Just(Amt::Neg),
        3 => Just(Amt::One),
        5 => (2u8..60).prop_map(Amt::Small),
        2 => Just(Amt::Bal),
        2 => Just(Amt::BalPlus1),
        2 => Just(Amt::Custody),
        2 => Just(Amt::CustodyPlus1),
    ]
}

fn gas() -> impl Strategy<Value = GasA> {
    prop_oneof![1 => Just(GasA::Zero), 1 => Just(GasA::Neg), 8 => Just(GasA::One), 1 => Just(GasA::All), 1 => Just(GasA::AllPlus1)]
}

fn op() -> impl Strategy<Value = Op> {
    prop_oneof![
        2 => (0u8..2, prop_oneof![Just(NCfg::Supply1000NoMinter), Just(NCfg::Supply0Minter), Just(NCfg::Supply0NoMinter)]).prop_map(|(slot, cfg)| Op::Deploy { slot, cfg }),
        2 => (0u8..3).prop_map(|slot| Op::Register { slot }),
        8 => (0u8..NU as u8, 0u8..5, 0u8..3, amt(), crate::engine::opt_of(0u8..40), gas()).prop_map(|(user, tok, chain, amount, data, gas)| Op::Out { user, tok, chain, amount, data, gas }),
        7 => (0u8..5, prop_oneof![4 => 0u8..NU as u8, 1 => NU as u8..(NU as u8 + 3)], 0u8..3, amt(), crate::engine::opt_of(0u8..40)).prop_map(|(tok, to, origin, amount, data)| Op::In { tok, to, origin, amount, data }),
        3 => (0u8..3).prop_map(Op::Trust),
        1 => (0u8..3).prop_map(Op::Untrust),
        1 => (0u8..2, 0u8..NU as u8, 1u8..100).prop_map(|(slot, to, amount)| Op::MinterMint { slot, to, amount }),
        1 => (0u8..NU as u8).prop_map(|user| Op::OutUnknownToken { user }),
        1 => (1u8..60).prop_map(Op::AdvanceDays),
        1 => (0u8..NU as u8, 0u8..2, 0u8..3, 0u8..60, 0u8..10).prop_map(|(user, slot, chain, amount, gas)| Op::OutGasInSameToken { user, slot, chain, amount, gas }),
        1 => (0u8..5, 0u8..NU as u8, 0u8..3, 1u8..50, 0u8..4).prop_map(|(tok, to, origin, low, which)| Op::InOutOfRangeAmount { tok, to, origin, low, which }),
        1 => (0u8..NU as u8, 0u8..5, 0u8..3, any::<bool>()).prop_map(|(user, tok, chain, space)| Op::OutLookalikeChain { user, tok, chain, space }),
        1 => (0u8..5, 0u8..3).prop_map(|(tok, origin)| Op::InDeployForKnownToken { tok, origin }),
        1 => Just(Op::UpgradeAndMigrate),
        1 => (0u8..2).prop_map(|slot| Op::RegisterDeployedAsCanonical { slot }),
        1 => (0u8..2).prop_map(|slot| Op::IssuerHandsAdminToService { slot }),
        1 => (0u8..2, 0u8..3, prop_oneof![Just(Amt::One), Just(Amt::Custody), (2u8..30).prop_map(Amt::Small)], 0u8..3, any::<bool>()).prop_map(|(slot, chain, amount, how, stranger_signs)| Op::ServiceNamedAsPayer { slot, chain, amount, how, stranger_signs }),
    ]
}

struct Tok {
    id: [u8; 32],
    addr: Address,
    native: bool,
    minter: Option<usize>,
}

impl Property for C05 {
    type Case = Case;
    fn id(&self) -> &'static str {
        "C05"
    }
    fn rule(&self) -> &'static str {
        "proptest histories (<=25 quick / <=45 thorough ops) over 2 ITS-deployed tokens (initial supply 1000 / 0, with / without minter), 2 registered canonical Stellar assets plus a canonical harness token that checks neither sign nor balance, 4 users, an executable probe, 3 chains: deployments, registrations, outbound transfers (amount 0, -1, 1, small, balance, balance+1, custody, custody+1; data absent / present; gas 0, -1, 1, all, all+1), approved inbound transfers (to users, to the executable with data, occasionally to the service itself or the gas service; amounts up to custody+1), trusted-chain changes, minter mints, transfers of unknown token ids. The issuer of a canonical Stellar asset may hand its admin role to the token service, before or after the asset is registered (custody accounting must go on unchanged). Oracle: ledger model of every balance, custody per canonical token and supply per deployed token, compared after every step (custody = token balance of the service, never negative; supply = sum of balances over the closed address pool); successful outbound = exactly sender -amount, payer -gas, gas service +gas, one contract_called whose payload equals the harness's own ABI encoding of SendToHub{chain, Transfer{id, XDR(sender), destination, amount, data}}, a gas payment event carrying keccak(payload), payer and amount, and a service event naming token, sender and amount; inbound credits exactly the amount and the service event names token, recipient and amount; every refused call leaves the ledger snapshot identical. The configuration of known finding C11 (supply>0 with minter) is excluded by construction. non-trivial = history has transfers in both directions on a canonical token, or a failing attempt between two successful transfers; distinct by Debug hash. A share of the random cases is an entry-point sweep (construction as described for C13: the exported functions of all shipped contracts read from the sources of the tree under test, a complete deployed system, pooled arguments - including well-formed signer sets nobody installed and proofs properly signed by the gateway's own signer set over digests that belong to no command -, every require_auth satisfied by the host's mock and recorded; entry points absent from the pinned inventory get 300 deterministic cases each); oracle: the service's custody of the locked canonical token never decreases and the supply of the token it deployed grows only with its designated minter among the recorded signers (no inbound message is approved in these cases); non-trivial = the call succeeded Since rounds 12-13 the histories also contain calls that name the token service itself as payer of a remote deployment or as sender of a transfer (gas stated in a canonical asset held in custody, or in a token anybody could deploy whose transfer asks nobody), signed by nobody or a stranger: custody must not move and no transfer may be announced."
    }
    fn assumptions(&self) -> Vec<&'static str> {
        vec![
            "with the unchecked harness token, a transfer beyond the sender's balance / the custody is the token's business, not the service's (Either, effects still tracked)",
            "a transfer whose stated gas payment is exactly 0 is not decided by the statement (Either); if accepted, every other condition and effect is still checked",
        ]
    }
    fn cases(&self, tier: Tier) -> u64 {
        tier.pick(2500, 40000)
    }
    fn strategy(&self, tier: Tier) -> BoxedStrategy<Case> {
        let direct: BoxedStrategy<Case> = {
        (prop_oneof![1 => Just(0u8), 2 => Just(1u8), 4 => Just(2u8), 2 => Just(3u8)], proptest::collection::vec(op(), 1..=tier.pick(25usize, 45usize)), crate::engine::repeats())
            .prop_map(|(start, ops, reps)| {
                let mut ops = crate::engine::with_repeats(ops, &reps);
                // most histories start with a usable world (the prefix is part of the case and shrinks with it)
                let mut pre = match start {
                    0 => vec![],
                    1 => vec![Op::Trust(0), Op::Deploy { slot: 0, cfg: NCfg::Supply1000NoMinter }, Op::Register { slot: 0 }],
                    3 => vec![
                        Op::Trust(0),
                        Op::Trust(1),
                        Op::IssuerHandsAdminToService { slot: 1 },
                        Op::Register { slot: 0 },
                        Op::Register { slot: 1 },
                        Op::Out { user: 1, tok: 3, chain: 1, amount: Amt::Small(40), data: None, gas: GasA::One },
                    ],
                    _ => vec![
                        Op::Trust(0),
                        Op::Trust(1),
                        Op::Deploy { slot: 0, cfg: NCfg::Supply1000NoMinter },
                        Op::Register { slot: 0 },
                        Op::Deploy { slot: 1, cfg: NCfg::Supply0Minter },
                        Op::Register { slot: 1 },
                        Op::Out { user: 0, tok: 2, chain: 0, amount: Amt::Small(59), data: None, gas: GasA::One },
                        Op::Out { user: 1, tok: 3, chain: 1, amount: Amt::Small(40), data: Some(3), gas: GasA::One },
                    ],
                };
                pre.append(&mut ops);
                Case { ops: pre, sweep: None }
            })
            .boxed()
        };
        match crate::sweep::strategy(crate::sweep::Rule::Value) {
            Some(sw) => prop_oneof![6 => direct, 1 => sw.prop_map(|s| Case { ops: vec![], sweep: Some(s) })].boxed(),
            None => direct,
        }
    }

    fn fixed_cases(&self, _tier: Tier) -> Vec<Case> {
        crate::sweep::fixed_cases(300).into_iter().map(|s| Case { ops: vec![], sweep: Some(s) }).collect()
    }

    fn run(&self, case: &Case, cx: &mut Cx) -> Result<(), String> {
        if let Some(sw) = &case.sweep {
            return crate::sweep::run(sw, cx, crate::sweep::Rule::Value);
        }
        let w = build_its_world("stellar", HUB_ADDR, NU);
        let env = &w.env;
        let exec_id = env.register(TokenExec, (w.its.id.clone(),));
        let exec = TokenExecClient::new(env, &exec_id);
        // third "asset": a harness token that checks neither sign nor balance, so that the
        // service's own amount checks are observable on the lock/unlock path
        let sloppy_id = env.register(crate::probes::SloppyToken, ());
        let assets = [w.new_asset(), w.new_asset(), sloppy_id.clone()];
        for a in &assets[..2] {
            for u in &w.users {
                w.mint_asset(a, u, START_ASSET);
            }
        }
        for u in &w.users {
            crate::probes::SloppyTokenClient::new(env, &sloppy_id).mint(u, &START_ASSET);
        }
        const SLOPPY: usize = 4;
        for u in &w.users {
            w.fund_gas(u, START_GAS);
        }
        // address pool: users, exec, ITS, gas service
        let mut pool: Vec<Address> = w.users.clone();
        pool.push(exec_id.clone());
        pool.push(w.its.id.clone());
        pool.push(w.gas.id.clone());
        let its_i = NU + 1;
        let gs_i = NU + 2;
        // token slots: 0,1 native ; 2,3 canonical
        let mut toks: [Option<Tok>; 5] = [None, None, None, None, None];
        let mut bal: Vec<[i128; 7]> = vec![[0; 7]; 5]; // [tok][pool idx]
        let mut gasbal: [i128; 7] = [0; 7];
        for i in 0..NU {
            gasbal[i] = START_GAS;
        }
        let mut asset_bal: Vec<[i128; 7]> = vec![[0; 7]; 3]; // balances of the two assets even before registration
        for a in 0..3 {
            for i in 0..NU {
                asset_bal[a][i] = START_ASSET;
            }
        }
        let mut supply: [i128; 2] = [0; 2];
        let mut trusted = [false; 3];
        let gas_t = TokenClient::new(env, &w.gas_asset);
        let mut out_ok_canonical = false;
        let mut in_ok_canonical = false;
        let mut successes = 0u32;
        let mut fail_after_success = false;
        let mut nontrivial = false;
        let mut exec_calls = 0u32;
        let mut days_passed: u32 = 0;

        for (step, op) in case.ops.iter().enumerate() {
            env.mock_all_auths_allowing_non_root_auth();
            match op {
                Op::AdvanceDays(d) => {
                    if days_passed + *d as u32 <= 200 {
                        days_passed += *d as u32;
                        advance_ledgers(env, *d as u32 * 17280);
                    }
                }
                Op::UpgradeAndMigrate => {
                    upgrade_and_migrate(env, &w.its.id).map_err(|e| format!("step {}: {}", step, e))?;
                    cx.label("upgrade_and_migration_in_history");
                }
                Op::Trust(c) => {
                    let c = *c as usize % 3;
                    let ok = w.trust(CHAINS[c]);
                    ensure_p!(ok == !trusted[c], "step {}: set_trusted_chain outcome differs from the model", step);
                    trusted[c] = true;
                }
                Op::Untrust(c) => {
                    let c = *c as usize % 3;
                    let ok = w.untrust(CHAINS[c]);
                    ensure_p!(ok == trusted[c], "step {}: remove_trusted_chain outcome differs from the model", step);
                    trusted[c] = false;
                }
                Op::Deploy { slot, cfg } => {
                    let s = *slot as usize % 2;
                    if toks[s].is_some() {
                        continue;
                    }
                    let (sup, minter) = match cfg {
                        NCfg::Supply1000NoMinter => (1000i128, None),
                        NCfg::Supply0Minter => (0, Some(3usize)),
                        NCfg::Supply0NoMinter => (0, None),
                    };
                    let salt = [s as u8 + 1; 32];
                    let (id, addr) = w
                        .deploy_token(&w.users[0], &salt, b"Tok", b"T", 7, sup, minter.map(|i| w.users[i].clone()))
                        .map_err(|e| format!("step {}: deployment failed: {}", step, e))?;
                    bal[s][0] = sup;
                    supply[s] = sup;
                    if sup > 0 {
                        // spread the initial supply over the users (setup transfers, all auths mocked)
                        env.mock_all_auths();
                        for i in 1..NU {
                            w.token(&addr).transfer(&w.users[0], &w.users[i], &(sup / NU as i128));
                            bal[s][0] -= sup / NU as i128;
                            bal[s][i] += sup / NU as i128;
                        }
                    }
                    toks[s] = Some(Tok { id, addr, native: true, minter });
                }
                Op::Register { slot } => {
                    let s = *slot as usize % 3;
                    if toks[2 + s].is_some() {
                        continue;
                    }
                    let id = w.its.client.register_canonical_token(&assets[s]).to_array();
                    bal[2 + s] = asset_bal[s];
                    toks[2 + s] = Some(Tok { id, addr: assets[s].clone(), native: false, minter: None });
                }
                Op::IssuerHandsAdminToService { slot } => {
                    let s = *slot as usize % 2;
                    env.mock_all_auths();
                    soroban_sdk::token::StellarAssetClient::new(env, &assets[s]).set_admin(&w.its.id);
                    cx.label(if toks[2 + s].is_some() { "asset_admin_handed_to_service_after_registration" } else { "asset_admin_handed_to_service_before_registration" });
                    env.mock_all_auths_allowing_non_root_auth();
                }
                Op::RegisterDeployedAsCanonical { slot } => {
                    if let Some(t) = &toks[*slot as usize % 2] {
                        let r = w.its.client.try_register_canonical_token(&t.addr);
                        cx.count("either");
                        cx.label(if matches!(r, Ok(Ok(_))) { "deployed_token_also_registered_as_canonical" } else { "deployed_token_refused_as_canonical" });
                        nontrivial = true;
                    }
                }
                Op::MinterMint { slot, to, amount } => {
                    let s = *slot as usize % 2;
                    if let Some(t) = &toks[s] {
                        if let Some(mi) = t.minter {
                            let to = *to as usize % NU;
                            let ok = matches!(w.token(&t.addr).try_mint_from(&w.users[mi], &w.users[to], &(*amount as i128)), Ok(Ok(())));
                            ensure_p!(ok, "step {}: designated minter could not mint", step);
                            bal[s][to] += *amount as i128;
                            supply[s] += *amount as i128;
                        }
                    }
                }
                Op::OutGasInSameToken { user, slot, chain, amount, gas } => {
                    let u = *user as usize % NU;
                    let ti = 2 + *slot as usize % 2;
                    let c = *chain as usize % 3;
                    if let Some(t) = &toks[ti] {
                        let a = *amount as i128;
                        let g = *gas as i128;
                        let b = bal[ti][u];
                        let expect_ok = a > 0 && g > 0 && trusted[c] && a + g <= b;
                        let snap0 = snapshot(env);
                        let r = w.its.client.try_interchain_transfer(
                            &w.users[u],
                            &BytesN::from_array(env, &t.id),
                            &sstr(env, CHAINS[c]),
                            &Bytes::from_slice(env, &[7, 7]),
                            &a,
                            &None,
                            &Token { address: t.addr.clone(), amount: g },
                        );
                        let ok = matches!(r, Ok(Ok(())));
                        if expect_ok {
                            cx.count("must_succeed");
                            cx.label("gas_paid_in_the_transferred_token");
                            ensure_p!(ok, "step {}: transfer of {} with gas {} in the same token (balance {}) refused: {:?}", step, a, g, b, r);
                            bal[ti][u] -= a + g;
                            bal[ti][its_i] += a;
                            bal[ti][gs_i] += g;
                            asset_bal[ti - 2] = bal[ti];
                            out_ok_canonical = true;
                            successes += 1;
                        } else {
                            cx.count("must_fail");
                            ensure_p!(!ok, "step {}: transfer of {} with gas {} in the same token accepted although balance is {} / trusted {}", step, a, g, b, trusted[c]);
                            ensure_p!(snapshot(env) == snap0, "step {}: refused transfer changed the ledger", step);
                        }
                    }
                }
                Op::InOutOfRangeAmount { tok, to, origin, low, which } => {
                    let ti = *tok as usize % 5;
                    if let Some(t) = &toks[ti] {
                        let mut amount = word_u128(*low as u128);
                        match which % 4 {
                            0 => amount = word_u128((1u128 << 127) + *low as u128),
                            1 => amount[15] |= 1,
                            2 => amount[7] |= 1,
                            _ => amount[0] |= 0x80,
                        }
                        let inner = AMsg::Transfer { token_id: t.id, source: vec![1], dest: address_xdr(env, &w.users[*to as usize % NU]), amount, data: vec![] };
                        let payload = ItsWorld::receive_payload(CHAINS[*origin as usize % 3], &inner);
                        let mid = w.next_message_id();
                        w.approve_for_its(HUB_CHAIN, &mid, HUB_ADDR, &payload)?;
                        let snap0 = snapshot(env);
                        let r = w.execute(HUB_CHAIN, &mid, HUB_ADDR, &payload);
                        cx.count("must_fail");
                        ensure_p!(r.is_err(), "step {}: an inbound transfer announcing an amount above 2^127-1 was executed", step);
                        ensure_p!(snapshot(env) == snap0, "step {}: refused inbound transfer changed the ledger", step);
                    }
                }
                Op::InDeployForKnownToken { tok, origin } => {
                    let ti = *tok as usize % 5;
                    if let Some(t) = &toks[ti] {
                        w.inject(&t.id);
                        let inner = AMsg::Deploy { token_id: t.id, name: b"Again".to_vec(), symbol: b"AGN".to_vec(), decimals: word_u64(7), minter: vec![] };
                        let payload = ItsWorld::receive_payload(CHAINS[*origin as usize % 3], &inner);
                        let mid = w.next_message_id();
                        w.approve_for_its(HUB_CHAIN, &mid, HUB_ADDR, &payload)?;
                        let r = w.execute(HUB_CHAIN, &mid, HUB_ADDR, &payload);
                        cx.count("either");
                        cx.label(if r.is_ok() { "deploy_message_for_known_id_accepted" } else { "deploy_message_for_known_id_refused" });
                        nontrivial = true;
                    }
                }
                Op::OutLookalikeChain { user, tok, chain, space } => {
                    let u = *user as usize % NU;
                    let ti = *tok as usize % 5;
                    let c = *chain as usize % 3;
                    if let Some(t) = &toks[ti] {
                        let name = if *space { format!("{} ", CHAINS[c]) } else { CHAINS[c].to_uppercase() };
                        let snap0 = snapshot(env);
                        let r = w.its.client.try_interchain_transfer(
                            &w.users[u],
                            &BytesN::from_array(env, &t.id),
                            &sstr(env, &name),
                            &Bytes::from_slice(env, &[1, 2, 3]),
                            &1,
                            &None,
                            &w.gas_token(1),
                        );
                        cx.count("must_fail");
                        ensure_p!(!matches!(r, Ok(Ok(()))), "step {}: transfer toward {:?}, which was never set as a trusted chain, succeeded", step, name);
                        ensure_p!(snapshot(env) == snap0, "step {}: refused transfer changed the ledger", step);
                    }
                }
                Op::ServiceNamedAsPayer { slot, chain, amount, how, stranger_signs } => {
                    let ti = 2 + *slot as usize % 2;
                    let c = *chain as usize % 3;
                    if let Some(t) = &toks[ti] {
                        let custody = bal[ti][its_i];
                        let a: i128 = match amount {
                            Amt::Custody => custody.max(1),
                            Amt::Small(k) => *k as i128,
                            _ => 1,
                        };
                        let gas_token = Token { address: t.addr.clone(), amount: a };
                        let stranger = Address::generate(env);
                        let (f, args): (&str, soroban_sdk::Vec<soroban_sdk::Val>) = if how % 3 == 2 {
                            let lax = env.register(crate::probes::LaxToken, ());
                            (
                                "interchain_transfer",
                                (w.its.id.clone(), BytesN::from_array(env, &t.id), sstr(env, CHAINS[c]), Bytes::from_slice(env, &[7, 7]), a, Option::<Bytes>::None, Token { address: lax, amount: 1 }).into_val(env),
                            )
                        } else if how % 3 == 0 {
                            ("deploy_remote_canonical_token", (t.addr.clone(), sstr(env, CHAINS[c]), w.its.id.clone(), gas_token.clone()).into_val(env))
                        } else {
                            (
                                "interchain_transfer",
                                (w.its.id.clone(), BytesN::from_array(env, &t.id), sstr(env, CHAINS[c]), Bytes::from_slice(env, &[7, 7]), 1i128, Option::<Bytes>::None, gas_token.clone()).into_val(env),
                            )
                        };
                        if *stranger_signs {
                            let inv = soroban_sdk::testutils::MockAuthInvoke { contract: &w.its.id, fn_name: f, args: args.clone(), sub_invokes: &[] };
                            env.mock_auths(&[soroban_sdk::testutils::MockAuth { address: &stranger, invoke: &inv }]);
                        } else {
                            env.set_auths(&[]);
                        }
                        let snap0 = snapshot(env);
                        let r = env.try_invoke_contract::<soroban_sdk::Val, soroban_sdk::Error>(&w.its.id, &soroban_sdk::Symbol::new(env, f), args);
                        let ok = matches!(r, Ok(Ok(_)));
                        let held = TokenClient::new(env, &t.addr).balance(&w.its.id);
                        env.mock_all_auths_allowing_non_root_auth();
                        if custody > 0 && trusted[c] {
                            cx.label("service_named_as_payer_while_it_holds_custody");
                        }
                        ensure_p!(
                            held >= custody,
                            "step {}: {} naming the token service itself as payer, authorised by {}, took {} of canonical token {} out of the service's custody ({} -> {}) although nothing was released to anybody",
                            step,
                            f,
                            if *stranger_signs { "a stranger" } else { "nobody" },
                            custody - held,
                            ti,
                            custody,
                            held
                        );
                        if ok && how % 3 == 2 {
                            return Err(format!(
                                "step {}: an outbound transfer of {} of canonical token {} naming the token service itself as sender, authorised by {}, was accepted and announced: nothing was taken from a sender into custody, the announced amount is backed by what other users locked",
                                step,
                                a,
                                ti,
                                if *stranger_signs { "a stranger" } else { "nobody" }
                            ));
                        }
                        if ok {
                            cx.count("either");
                            // (whatever was accepted moved nothing the model tracks: checked by the sweep below)
                        } else {
                            cx.count("must_fail_or_either");
                            ensure_p!(snapshot(env) == snap0, "step {}: refused call changed the ledger", step);
                        }
                    }
                }
                Op::OutUnknownToken { user } => {
                    let u = *user as usize % NU;
                    let snap0 = snapshot(env);
                    let r = w.its.client.try_interchain_transfer(
                        &w.users[u],
                        &BytesN::from_array(env, &h32("unknown", 1)),
                        &sstr(env, CHAINS[0]),
                        &Bytes::from_slice(env, &[1, 2, 3]),
                        &1,
                        &None,
                        &w.gas_token(1),
                    );
                    cx.count("must_fail");
                    ensure_p!(!matches!(r, Ok(Ok(()))), "step {}: transfer of an unknown token id succeeded", step);
                    ensure_p!(snapshot(env) == snap0, "step {}: refused transfer changed the ledger", step);
                }
                Op::Out { user, tok, chain, amount, data, gas } => {
                    let u = *user as usize % NU;
                    let ti = *tok as usize % 5;
                    let c = *chain as usize % 3;
                    let registered = toks[ti].is_some();
                    let (tid, b) = match &toks[ti] {
                        Some(t) => (t.id, bal[ti][u]),
                        None => (h32("unregistered-slot", ti as u64), 0),
                    };
                    let custody = if ti >= 2 { bal[ti][its_i] } else { 0 };
                    let a: i128 = match amount {
                        Amt::Zero => 0,
                        Amt::Neg => -1,
                        Amt::One => 1,
                        Amt::Small(k) => *k as i128,
                        Amt::Bal => b,
                        Amt::BalPlus1 => b + 1,
                        Amt::Custody => custody,
                        Amt::CustodyPlus1 => custody + 1,
                    };
                    let g: i128 = match gas {
                        GasA::Zero => 0,
                        GasA::Neg => -1,
                        GasA::One => 1,
                        GasA::All => gasbal[u],
                        GasA::AllPlus1 => gasbal[u] + 1,
                    };
                    let data_b: Option<Vec<u8>> = data.map(|l| shaped_bytes(step as u64 + l as u64, l as usize));
                    let dest_b = seeded_bytes(77 + step as u64, 20);
                    // a stated gas payment of exactly 0 charges "exactly the stated payment" if it goes through:
                    // the statement does not decide whether such a transfer is accepted (today the gas service
                    // refuses it) - everything else about it is still checked
                    let zero_gas = g == 0;
                    let base_ok = registered && a > 0 && trusted[c] && ((g > 0 && g <= gasbal[u]) || zero_gas);
                    // the balance check is the token's; the unchecked harness token does not make it
                    let undecided = (ti == SLOPPY && base_ok && a > b) || (zero_gas && base_ok && (a <= b || ti == SLOPPY));
                    let expect_ok = base_ok && a <= b && !zero_gas;
                    let snap0 = snapshot(env);
                    let ev0 = events_len(env);
                    let r = w.its.client.try_interchain_transfer(
                        &w.users[u],
                        &BytesN::from_array(env, &tid),
                        &sstr(env, CHAINS[c]),
                        &Bytes::from_slice(env, &dest_b),
                        &a,
                        &data_b.as_ref().map(|d| Bytes::from_slice(env, d)),
                        &Token { address: w.gas_asset.clone(), amount: g },
                    );
                    let ok = matches!(r, Ok(Ok(())));
                    if undecided {
                        cx.count("either");
                    }
                    if expect_ok || (undecided && ok) {
                        if expect_ok {
                            cx.count("must_succeed");
                        }
                        ensure_p!(ok, "step {}: outbound transfer refused (amount {}, balance {}, gas {}, trusted {}): {:?}", step, a, b, g, trusted[c], r);
                        bal[ti][u] -= a;
                        if ti < 2 {
                            supply[ti] -= a;
                        } else {
                            bal[ti][its_i] += a;
                            asset_bal[ti - 2] = bal[ti];
                            out_ok_canonical = true;
                        }
                        gasbal[u] -= g;
                        gasbal[gs_i] += g;
                        successes += 1;
                        // announcement
                        let inner = AMsg::Transfer {
                            token_id: tid,
                            source: address_xdr(env, &w.users[u]),
                            dest: dest_b.clone(),
                            amount: word_u128(a as u128),
                            data: data_b.clone().unwrap_or_default(),
                        };
                        let payload = AHub::Send { chain: CHAINS[c].as_bytes().to_vec(), inner: inner.encode() }.encode();
                        let evs = events_since(env, ev0);
                        let called: Vec<_> = evs.iter().filter(|e| e.0 == w.gw.id).collect();
                        ensure_p!(called.len() == 1, "step {}: expected exactly one gateway event, got {}", step, called.len());
                        let want_topics = vec![
                            sym("contract_called"),
                            scv(env, w.its.id.clone()),
                            scv(env, sstr(env, HUB_CHAIN)),
                            scv(env, sstr(env, HUB_ADDR)),
                            scv(env, BytesN::from_array(env, &keccak256(&payload))),
                        ];
                        ensure_p!(called[0].1 == want_topics, "step {}: contract_called topics wrong: {:?}", step, called[0].1);
                        ensure_p!(
                            called[0].2 == ScVal::Bytes(soroban_sdk::xdr::ScBytes(payload.clone().try_into().unwrap())),
                            "step {}: announced payload differs from the independent encoding of SendToHub{{{}, Transfer{{id, sender, destination, {}, data}}}}",
                            step,
                            CHAINS[c],
                            a
                        );
                        let paid: Vec<_> = evs.iter().filter(|e| e.0 == w.gas.id).collect();
                        ensure_p!(
                            g == 0 || paid.iter().any(|e| e.1.contains(&scv(env, BytesN::from_array(env, &keccak256(&payload))))
                                && e.1.contains(&scv(env, w.users[u].clone()))
                                && e.1.contains(&scv(env, Token { address: w.gas_asset.clone(), amount: g }))),
                            "step {}: no gas payment event carries keccak(payload), payer and the stated gas token/amount: {:?}",
                            step,
                            paid
                        );
                        let sent: Vec<_> = evs.iter().filter(|e| e.0 == w.its.id).collect();
                        // the service's own event is not part of the statement beyond naming what was taken
                        ensure_p!(
                            sent.iter().any(|e| e.1.contains(&scv(env, BytesN::from_array(env, &tid))) && e.1.contains(&scv(env, a)) && e.1.contains(&scv(env, w.users[u].clone()))),
                            "step {}: no service event names token, sender and amount: {:?}",
                            step,
                            sent
                        );
                    } else {
                        if !undecided {
                            cx.count("must_fail");
                        }
                        ensure_p!(!ok, "step {}: outbound transfer accepted (registered {}, amount {}, balance {}, trusted {}, gas {} of {})", step, registered, a, b, trusted[c], g, gasbal[u]);
                        ensure_p!(snapshot(env) == snap0, "step {}: refused outbound transfer changed the ledger", step);
                        ensure_p!(events_len(env) == ev0, "step {}: refused outbound transfer emitted events", step);
                        if successes > 0 {
                            fail_after_success = true;
                        }
                    }
                }
                Op::In { tok, to, origin, amount, data } => {
                    let ti = *tok as usize % 5;
                    let o = *origin as usize % 3;
                    // data goes to the executable; without data the recipient is a user, or - every so often - the
                    // executable, the service itself or the gas service (aliasing with the custodian must not matter)
                    let to_i = if data.is_some() { NU } else { *to as usize % (NU + 3) };
                    let registered = toks[ti].is_some();
                    let tid = match &toks[ti] {
                        Some(t) => t.id,
                        None => h32("unregistered-slot", ti as u64),
                    };
                    let custody = if ti >= 2 { bal[ti][its_i] } else { 0 };
                    let a: i128 = match amount {
                        Amt::Zero | Amt::Neg | Amt::One => 1,
                        Amt::Small(k) => *k as i128,
                        Amt::Bal | Amt::Custody => custody.max(1),
                        Amt::BalPlus1 | Amt::CustodyPlus1 => custody + 1,
                    };
                    let data_b: Vec<u8> = data.map(|l| shaped_bytes(step as u64 + l as u64, 1 + l as usize)).unwrap_or_default();
                    let src_b = seeded_bytes(5 + step as u64, 20);
                    let inner = AMsg::Transfer { token_id: tid, source: src_b.clone(), dest: address_xdr(env, &pool[to_i]), amount: word_u128(a as u128), data: data_b.clone() };
                    let payload = ItsWorld::receive_payload(CHAINS[o], &inner);
                    let mid = w.next_message_id();
                    w.approve_for_its(HUB_CHAIN, &mid, HUB_ADDR, &payload)?;
                    let undecided = ti == SLOPPY && registered && trusted[o] && a > custody;
                    let expect_ok = registered && trusted[o] && (ti < 2 || a <= custody);
                    let snap0 = snapshot(env);
                    let ev0 = events_len(env);
                    let r = w.execute(HUB_CHAIN, &mid, HUB_ADDR, &payload);
                    if undecided {
                        cx.count("either");
                    }
                    if expect_ok || (undecided && r.is_ok()) {
                        if expect_ok {
                            cx.count("must_succeed");
                        }
                        ensure_p!(r.is_ok(), "step {}: approved inbound transfer refused (amount {}, custody {}): {:?}", step, a, custody, r);
                        bal[ti][to_i] += a;
                        if ti < 2 {
                            supply[ti] += a;
                        } else {
                            bal[ti][its_i] -= a;
                            asset_bal[ti - 2] = bal[ti];
                            in_ok_canonical = true;
                        }
                        successes += 1;
                        let evs = events_since(env, ev0);
                        let recv: Vec<_> = evs.iter().filter(|e| e.0 == w.its.id).collect();
                        ensure_p!(
                            recv.iter().any(|e| e.1.contains(&scv(env, BytesN::from_array(env, &tid))) && e.1.contains(&scv(env, a)) && e.1.contains(&scv(env, pool[to_i].clone()))),
                            "step {}: no service event names token, recipient and amount: {:?}",
                            step,
                            recv
                        );
                        if !data_b.is_empty() {
                            exec_calls += 1;
                            let log = exec.log();
                            ensure_p!(log.len() == exec_calls, "step {}: executable called {} times, expected {}", step, log.len(), exec_calls);
                            let rec = log.get(exec_calls - 1).unwrap();
                            ensure_p!(rec.amount == a && rec.token_id.to_array() == tid && rec.payload.to_alloc_vec() == data_b && rec.balance_seen == bal[ti][to_i], "step {}: executable saw wrong data: {:?}", step, rec);
                        }
                    } else {
                        if !undecided {
                            cx.count("must_fail");
                        }
                        ensure_p!(r.is_err(), "step {}: inbound transfer accepted (registered {}, origin trusted {}, amount {}, custody {})", step, registered, trusted[o], a, custody);
                        ensure_p!(snapshot(env) == snap0, "step {}: refused inbound transfer changed the ledger", step);
                        ensure_p!(events_len(env) == ev0, "step {}: refused inbound transfer emitted events", step);
                        if successes > 0 {
                            fail_after_success = true;
                        }
                    }
                }
            }
            if fail_after_success && matches!(op, Op::Out { .. } | Op::In { .. }) {
                // a later success after a failure after a success
                nontrivial |= successes >= 2;
            }
            // ---- sweep
            for ti in 0..5 {
                if let Some(t) = &toks[ti] {
                    let tc = TokenClient::new(env, &t.addr);
                    let mut sum = 0i128;
                    for (i, a) in pool.iter().enumerate() {
                        let b = tc.balance(a);
                        ensure_p!(b == bal[ti][i], "after step {} {:?}: token slot {} balance of pool[{}] = {} but the ledger model says {}", step, op, ti, i, b, bal[ti][i]);
                        ensure_p!(b >= 0 || ti == SLOPPY, "negative balance");
                        sum += b;
                    }
                    if t.native {
                        ensure_p!(sum == supply[ti], "after step {}: supply of deployed token {} is {} but burns/mints/initial supply give {}", step, ti, sum, supply[ti]);
                    } else {
                        ensure_p!(bal[ti][its_i] >= 0 || ti == SLOPPY, "custody negative");
                    }
                }
            }
            for (i, a) in pool.iter().enumerate() {
                ensure_p!(gas_t.balance(a) == gasbal[i], "after step {} {:?}: gas-asset balance of pool[{}] differs from the model", step, op, i);
            }
        }
        if out_ok_canonical && in_ok_canonical {
            nontrivial = true;
            cx.label("both_directions_on_canonical_token");
        }
        if nontrivial {
            cx.nontrivial();
        }
        if fail_after_success {
            cx.label("failure_after_success");
        }
        let _ = (&toks[0].as_ref().map(|t| t.native), 0);
        Ok(())
    }
}
