//! C06 — admin operations need the current role holder's authorisation.
//! Entry-point x principal matrix over role-transfer histories, by record-and-substitute.

use crate::auth;
use crate::engine::{Cx, Property, Tier};
use crate::ensure_p;
use crate::sys::*;
use crate::world::*;
use axelar_soroban_std::types::Token;
use proptest::prelude::*;
#[allow(unused_imports)]
use crate::prop_oneof;
use serde::{Deserialize, Serialize};
use soroban_sdk::{Address, BytesN};

pub struct C06;

#[derive(Clone, Copy, Debug, Serialize, Deserialize, PartialEq, Eq, PartialOrd, Ord)]
pub enum Role {
    GwOwner,
    GwOperator,
    GasOwner,
    GasCollector,
    OpsOwner,
    ItsOwner,
    TokenOwner,
}

const ROLES: [Role; 7] = [Role::GwOwner, Role::GwOperator, Role::GasOwner, Role::GasCollector, Role::OpsOwner, Role::ItsOwner, Role::TokenOwner];

impl Role {
    fn initial(self) -> usize {
        match self {
            Role::GwOwner => GW_OWNER,
            Role::GwOperator => GW_OPERATOR,
            Role::GasOwner => GAS_OWNER,
            Role::GasCollector => GAS_COLLECTOR,
            Role::OpsOwner => OPS_OWNER,
            Role::ItsOwner => ITS_OWNER,
            Role::TokenOwner => TOKEN_OWNER,
        }
    }
    /// the holder of "another role" on the same contract (pool index resolved against the model)
    fn other(self) -> Role {
        match self {
            Role::GwOwner => Role::GwOperator,
            Role::GwOperator => Role::GwOwner,
            Role::GasOwner => Role::GasCollector,
            Role::GasCollector => Role::GasOwner,
            Role::OpsOwner => Role::GwOwner,
            Role::ItsOwner => Role::GwOwner,
            Role::TokenOwner => Role::ItsOwner,
        }
    }
    fn transferable(self) -> bool {
        !matches!(self, Role::GasCollector)
    }
}

#[derive(Clone, Copy, Debug, Serialize, Deserialize, PartialEq, Eq)]
pub enum Ep {
    GwTransferOwnership,
    GwTransferOperatorship,
    GwUpgrade,
    GwMigrate,
    GwRotateBypass,
    /// bypass rotation whose proof comes from an older, still retained signer set
    GwRotateBypassOlderSet,
    GasTransferOwnership,
    GasUpgrade,
    GasMigrate,
    GasCollectFees,
    GasRefund,
    OpsTransferOwnership,
    OpsUpgrade,
    OpsMigrate,
    OpsAddOperator,
    OpsRemoveOperator,
    ItsTransferOwnership,
    ItsUpgrade,
    ItsMigrate,
    ItsSetTrustedChain,
    ItsRemoveTrustedChain,
    TokTransferOwnership,
    TokSetAdmin,
    TokUpgrade,
    TokMigrate,
    TokAddMinter,
    TokRemoveMinter,
    TokOwnerMint,
    /// owner minting through the minter entry point: mint_from(minter = current owner, ..)
    TokOwnerMintFrom,
}

pub const EPS: [Ep; 29] = [
    Ep::GwTransferOwnership,
    Ep::GwTransferOperatorship,
    Ep::GwUpgrade,
    Ep::GwMigrate,
    Ep::GwRotateBypass,
    Ep::GwRotateBypassOlderSet,
    Ep::GasTransferOwnership,
    Ep::GasUpgrade,
    Ep::GasMigrate,
    Ep::GasCollectFees,
    Ep::GasRefund,
    Ep::OpsTransferOwnership,
    Ep::OpsUpgrade,
    Ep::OpsMigrate,
    Ep::OpsAddOperator,
    Ep::OpsRemoveOperator,
    Ep::ItsTransferOwnership,
    Ep::ItsUpgrade,
    Ep::ItsMigrate,
    Ep::ItsSetTrustedChain,
    Ep::ItsRemoveTrustedChain,
    Ep::TokTransferOwnership,
    Ep::TokSetAdmin,
    Ep::TokUpgrade,
    Ep::TokMigrate,
    Ep::TokAddMinter,
    Ep::TokRemoveMinter,
    Ep::TokOwnerMint,
    Ep::TokOwnerMintFrom,
];

impl Ep {
    pub fn role(self) -> Role {
        use Ep::*;
        match self {
            GwTransferOwnership | GwUpgrade | GwMigrate => Role::GwOwner,
            GwTransferOperatorship | GwRotateBypass | GwRotateBypassOlderSet => Role::GwOperator,
            GasTransferOwnership | GasUpgrade | GasMigrate => Role::GasOwner,
            GasCollectFees | GasRefund => Role::GasCollector,
            OpsTransferOwnership | OpsUpgrade | OpsMigrate | OpsAddOperator | OpsRemoveOperator => Role::OpsOwner,
            ItsTransferOwnership | ItsUpgrade | ItsMigrate | ItsSetTrustedChain | ItsRemoveTrustedChain => Role::ItsOwner,
            TokTransferOwnership | TokSetAdmin | TokUpgrade | TokMigrate | TokAddMinter | TokRemoveMinter | TokOwnerMint | TokOwnerMintFrom => Role::TokenOwner,
        }
    }
    /// can the call be made with a second, different argument list?
    /// does the entry point take several arguments, of which component `k` (see `Principal::HolderOtherArg`) is one
    fn has_component(self, k: u8) -> bool {
        match self {
            Ep::GasCollectFees => matches!(k, 0 | 1 | 3),
            Ep::GasRefund => k < 4,
            Ep::TokOwnerMint | Ep::TokOwnerMintFrom => k < 2,
            _ => false,
        }
    }
    fn has_variant(self) -> bool {
        !matches!(self, Ep::GwMigrate | Ep::GasMigrate | Ep::OpsMigrate | Ep::ItsMigrate | Ep::TokMigrate)
    }
    /// applying the same call twice is legal (the second application changes nothing)
    fn idempotent(self) -> bool {
        use Ep::*;
        self.is_transfer().is_some() || matches!(self, TokAddMinter | TokRemoveMinter | GwUpgrade | GasUpgrade | OpsUpgrade | ItsUpgrade | TokUpgrade)
    }
    fn is_transfer(self) -> Option<Role> {
        use Ep::*;
        match self {
            GwTransferOwnership => Some(Role::GwOwner),
            GwTransferOperatorship => Some(Role::GwOperator),
            GasTransferOwnership => Some(Role::GasOwner),
            OpsTransferOwnership => Some(Role::OpsOwner),
            ItsTransferOwnership => Some(Role::ItsOwner),
            TokTransferOwnership | TokSetAdmin => Some(Role::TokenOwner),
            _ => None,
        }
    }
}

#[derive(Clone, Copy, Debug, Serialize, Deserialize, PartialEq, Eq)]
pub enum Principal {
    Holder,
    Former,
    OtherRole,
    Beneficiary,
    Stranger,
    Nobody,
    /// the holder authorised the same entry point with other arguments
    HolderOtherCall,
    /// the holder authorised the same entry point with arguments that differ from the studied call in exactly one
    /// component: 0 the address named, 1 the amount, 2 the message id, 3 the token (entry points without that
    /// component are skipped)
    HolderOtherArg(u8),
}

const PRINCIPALS: [Principal; 11] = [
    Principal::Holder,
    Principal::Former,
    Principal::OtherRole,
    Principal::Beneficiary,
    Principal::Stranger,
    Principal::Nobody,
    Principal::HolderOtherCall,
    Principal::HolderOtherArg(0),
    Principal::HolderOtherArg(1),
    Principal::HolderOtherArg(2),
    Principal::HolderOtherArg(3),
];

#[derive(Clone, Copy, Debug, Serialize, Deserialize, PartialEq, Eq)]
pub struct Xfer {
    pub role: u8,
    pub to: u8,
}

#[derive(Clone, Debug, Serialize, Deserialize)]
pub struct Case {
    pub history: Vec<Xfer>,
    pub ep: Ep,
    pub principal: Principal,
    /// the same change was already applied once (by the rightful holder) before the studied call, so the
    /// studied call is a no-op state-wise: it must still need the (now current) holder's authorisation
    #[serde(default)]
    pub pre_applied: bool,
    /// the contract was upgraded (by its owner) and not yet migrated: the migration window is open
    #[serde(default)]
    pub window_open: bool,
    /// entry-point sweep case (see sweep.rs); the other fields are ignored
    #[serde(default)]
    pub sweep: Option<crate::sweep::SweepCase>,
    /// who is named as successor by a role transfer: 0 an uninvolved account, 1 the called contract itself
    /// (the way to renounce a role), 2 another contract, 3 the current holder (a transfer to oneself)
    #[serde(default)]
    pub successor: u8,
    /// the objects the studied call acts on (operators, minters, trusted chains, an open migration window, fees held)
    /// were created by the role holder of that time, *before* the role-transfer history ran
    #[serde(default)]
    pub prepared_by_earlier_holder: bool,
    /// the gateway and the gas service were deployed with one address holding both of their roles
    #[serde(default)]
    pub single_key: bool,
}

#[derive(Clone)]
struct RoleModel {
    holder: std::collections::BTreeMap<Role, usize>,
    former: std::collections::BTreeMap<Role, Vec<usize>>,
}

fn transfer_role(s: &Sys, role: Role, to: &Address) -> bool {
    match role {
        Role::GwOwner => s.gw.try_transfer_ownership(to).map(|r| r.is_ok()).unwrap_or(false),
        Role::GwOperator => s.gw.try_transfer_operatorship(to).map(|r| r.is_ok()).unwrap_or(false),
        Role::GasOwner => s.gas.try_transfer_ownership(to).map(|r| r.is_ok()).unwrap_or(false),
        Role::OpsOwner => s.ops.try_transfer_ownership(to).map(|r| r.is_ok()).unwrap_or(false),
        Role::ItsOwner => s.its.try_transfer_ownership(to).map(|r| r.is_ok()).unwrap_or(false),
        Role::TokenOwner => s.token.try_transfer_ownership(to).map(|r| r.is_ok()).unwrap_or(false),
        Role::GasCollector => false,
    }
}

fn query_role(s: &Sys, role: Role) -> Address {
    match role {
        Role::GwOwner => s.gw.owner(),
        Role::GwOperator => s.gw.operator(),
        Role::GasOwner => s.gas.owner(),
        Role::GasCollector => s.gas.gas_collector(),
        Role::OpsOwner => s.ops.owner(),
        Role::ItsOwner => s.its.owner(),
        Role::TokenOwner => s.token.owner(),
    }
}

const DUMMY_WASM: &[u8] = include_bytes!("/repo/contracts/upgrader/tests/testdata/dummy.wasm");

/// setup needed before the studied call (all auths mocked)
fn prepare(s: &Sys, ep: Ep) {
    s.env.mock_all_auths();
    let empty = BytesN::from_array(&s.env, &empty_wasm_hash());
    match ep {
        Ep::GwMigrate => s.gw.upgrade(&empty),
        Ep::GasMigrate => s.gas.upgrade(&empty),
        Ep::OpsMigrate => s.ops.upgrade(&empty),
        Ep::ItsMigrate => s.its.upgrade(&empty),
        Ep::TokMigrate => s.token.upgrade(&empty),
        Ep::GasCollectFees | Ep::GasRefund => {
            s.fund(&s.gas.address, 1000);
            // (the service also holds a second token, so that a payout of that one is a possible call as well)
            let o = s.token.owner();
            s.token.add_minter(&o);
            s.token.mint(&s.gas.address, &1000);
        }
        Ep::GwRotateBypassOlderSet => {
            // an honest rotation first, so that the initial set is older but still retained (retention 2)
            let newer = simple_set(40);
            let proof = s.set.proof(&s.env, &digest(&s.domain, &s.set.hash(), &newer.rotation_data_hash()), s.set.full_mask());
            s.gw.rotate_signers(&newer.to_soroban(&s.env), &proof, &false);
        }
        Ep::OpsRemoveOperator => {
            s.ops.add_operator(&s.pool[EXTRA_A]);
            s.ops.add_operator(&s.pool[EXTRA_B]);
        }
        Ep::ItsRemoveTrustedChain => {
            s.its.set_trusted_chain(&sstr(&s.env, "chain-a"));
            s.its.set_trusted_chain(&sstr(&s.env, "chain-b"));
        }
        Ep::TokRemoveMinter => {
            s.token.add_minter(&s.pool[EXTRA_A]);
            s.token.add_minter(&s.pool[EXTRA_B]);
        }
        Ep::TokOwnerMint | Ep::TokOwnerMintFrom => {
            // the owner's own minting right is tied to the minter set: make sure the current
            // owner is a minter so that only the authorisation question remains
            let o = s.token.owner();
            s.token.add_minter(&o);
        }
        _ => {}
    }
}

/// the studied call; `alt` selects another argument list: 0 the studied one, 1 every argument differs, 2 + k only
/// component k differs (0 address named, 1 amount, 2 message id, 3 token)
fn call(s: &Sys, ep: Ep, alt_sel: u8) -> bool {
    let env = &s.env;
    let alt = alt_sel == 1;
    let who = if alt || alt_sel == 2 { &s.pool[EXTRA_B] } else { &s.named };
    let chain = sstr(env, if alt { "chain-b" } else { "chain-a" });
    let amount: i128 = if alt || alt_sel == 3 { 2 } else { 1 };
    let msg_id = sstr(env, if alt_sel == 4 { "msg-2" } else { "msg-1" });
    let fee_token = if alt_sel == 5 { s.token.address.clone() } else { s.asset.clone() };
    let hash = if alt { env.deployer().upload_contract_wasm(DUMMY_WASM) } else { BytesN::from_array(env, &empty_wasm_hash()) };
    macro_rules! ok {
        ($e:expr) => {
            matches!($e, Ok(Ok(_)))
        };
    }
    match ep {
        Ep::GwTransferOwnership => ok!(s.gw.try_transfer_ownership(who)),
        Ep::GwTransferOperatorship => ok!(s.gw.try_transfer_operatorship(who)),
        Ep::GwUpgrade => ok!(s.gw.try_upgrade(&hash)),
        Ep::GwMigrate => migrate_typed(env, &s.gw.address, "axelar-gateway", &MigHints::default()).is_ok(),
        Ep::GwRotateBypass => {
            let new_set = simple_set(if alt { 31 } else { 30 });
            let dh = new_set.rotation_data_hash();
            let proof = s.set.proof(env, &digest(&s.domain, &s.set.hash(), &dh), s.set.full_mask());
            ok!(s.gw.try_rotate_signers(&new_set.to_soroban(env), &proof, &true))
        }
        Ep::GwRotateBypassOlderSet => {
            let new_set = simple_set(if alt { 33 } else { 32 });
            let dh = new_set.rotation_data_hash();
            let proof = s.set.proof(env, &digest(&s.domain, &s.set.hash(), &dh), s.set.full_mask());
            ok!(s.gw.try_rotate_signers(&new_set.to_soroban(env), &proof, &true))
        }
        Ep::GasTransferOwnership => ok!(s.gas.try_transfer_ownership(who)),
        Ep::GasUpgrade => ok!(s.gas.try_upgrade(&hash)),
        Ep::GasMigrate => migrate_typed(env, &s.gas.address, "axelar-gas-service", &MigHints::default()).is_ok(),
        Ep::GasCollectFees => ok!(s.gas.try_collect_fees(who, &Token { address: fee_token, amount: payout_amount(s, alt || alt_sel == 3) })),
        Ep::GasRefund => ok!(s.gas.try_refund(&msg_id, who, &Token { address: fee_token, amount: payout_amount(s, alt || alt_sel == 3) })),
        Ep::OpsTransferOwnership => ok!(s.ops.try_transfer_ownership(who)),
        Ep::OpsUpgrade => ok!(s.ops.try_upgrade(&hash)),
        Ep::OpsMigrate => migrate_typed(env, &s.ops.address, "axelar-operators", &MigHints::default()).is_ok(),
        Ep::OpsAddOperator => ok!(s.ops.try_add_operator(who)),
        Ep::OpsRemoveOperator => ok!(s.ops.try_remove_operator(who)),
        Ep::ItsTransferOwnership => ok!(s.its.try_transfer_ownership(who)),
        Ep::ItsUpgrade => ok!(s.its.try_upgrade(&hash)),
        Ep::ItsMigrate => migrate_typed(env, &s.its.address, "interchain-token-service", &MigHints::default()).is_ok(),
        Ep::ItsSetTrustedChain => ok!(s.its.try_set_trusted_chain(&chain)),
        Ep::ItsRemoveTrustedChain => ok!(s.its.try_remove_trusted_chain(&chain)),
        Ep::TokTransferOwnership => ok!(s.token.try_transfer_ownership(who)),
        Ep::TokSetAdmin => ok!(s.token.try_set_admin(who)),
        Ep::TokUpgrade => ok!(s.token.try_upgrade(&hash)),
        Ep::TokMigrate => migrate_typed(env, &s.token.address, "interchain-token", &MigHints::default()).is_ok(),
        Ep::TokAddMinter => ok!(s.token.try_add_minter(who)),
        Ep::TokRemoveMinter => ok!(s.token.try_remove_minter(who)),
        Ep::TokOwnerMint => ok!(s.token.try_mint(who, &amount)),
        Ep::TokOwnerMintFrom => ok!(s.token.try_mint_from(&s.token.owner(), who, &amount)),
    }
}

/// effect of the (first-variant) call is visible
fn effect_visible(s: &Sys, ep: Ep) -> Result<(), String> {
    let env = &s.env;
    let who = &s.named;
    let t = soroban_sdk::token::TokenClient::new(env, &s.asset);
    let good = match ep {
        Ep::GwTransferOwnership => s.gw.owner() == *who,
        Ep::GwTransferOperatorship => s.gw.operator() == *who,
        Ep::GasTransferOwnership => s.gas.owner() == *who,
        Ep::OpsTransferOwnership => s.ops.owner() == *who,
        Ep::ItsTransferOwnership => s.its.owner() == *who,
        Ep::TokTransferOwnership | Ep::TokSetAdmin => s.token.owner() == *who,
        Ep::GwRotateBypass => s.gw.epoch() == 2,
        Ep::GwRotateBypassOlderSet => s.gw.epoch() == 3,
        Ep::GasCollectFees | Ep::GasRefund => {
            let a = if *who == s.gas.gas_collector() { 1000 } else { 1 };
            t.balance(who) == a && t.balance(&s.gas.address) == 1000 - a
        }
        Ep::OpsAddOperator => s.ops.is_operator(who),
        Ep::OpsRemoveOperator => !s.ops.is_operator(who),
        Ep::ItsSetTrustedChain => s.its.is_trusted_chain(&sstr(env, "chain-a")),
        Ep::ItsRemoveTrustedChain => !s.its.is_trusted_chain(&sstr(env, "chain-a")),
        Ep::TokAddMinter => s.token.is_minter(who),
        Ep::TokRemoveMinter => !s.token.is_minter(who),
        Ep::TokOwnerMint | Ep::TokOwnerMintFrom => s.token.balance(who) == 1,
        _ => true,
    };
    if !good {
        return Err(format!("{:?} reported success but its effect is not visible", ep));
    }
    // the granted / revoked power itself, not only the query that reports it
    env.mock_all_auths_allowing_non_root_auth();
    let exec = |a: &Address| matches!(s.ops.try_execute(a, &s.token.address, &soroban_sdk::Symbol::new(env, "decimals"), &soroban_sdk::Vec::new(env)), Ok(Ok(_)));
    let mint_as = |a: &Address| matches!(s.token.try_mint_from(a, &s.pool[STRANGER], &1), Ok(Ok(())));
    let behaves = match ep {
        Ep::OpsAddOperator => exec(who),
        Ep::OpsRemoveOperator => !exec(who),
        Ep::TokAddMinter => mint_as(who),
        Ep::TokRemoveMinter => !mint_as(who),
        _ => true,
    };
    if behaves {
        Ok(())
    } else {
        Err(format!("{:?} reported success and the query agrees, but the power it grants / revokes behaves otherwise", ep))
    }
}

/// entry points whose preparation does not depend on who holds the role when the studied call is made
fn prepares_early(case: &Case) -> bool {
    case.prepared_by_earlier_holder
        && !case.history.is_empty()
        && matches!(
            case.ep,
            Ep::GwMigrate | Ep::GasMigrate | Ep::OpsMigrate | Ep::ItsMigrate | Ep::TokMigrate | Ep::GasCollectFees | Ep::GasRefund | Ep::OpsRemoveOperator | Ep::ItsRemoveTrustedChain | Ep::TokRemoveMinter
        )
}

fn build(case: &Case) -> (Sys<'static>, RoleModel) {
    let s = build_sys_cfg(case.single_key);
    let mut m = RoleModel { holder: Default::default(), former: Default::default() };
    for r in ROLES {
        m.holder.insert(r, r.initial());
        m.former.insert(r, vec![]);
    }
    if prepares_early(case) {
        prepare(&s, case.ep);
    }
    s.env.mock_all_auths();
    for x in &case.history {
        let role = ROLES[x.role as usize % ROLES.len()];
        if !role.transferable() {
            continue;
        }
        let to = x.to as usize % POOL;
        if transfer_role(&s, role, &s.pool[to]) {
            let prev = m.holder[&role];
            m.former.get_mut(&role).unwrap().push(prev);
            m.holder.insert(role, to);
        }
    }
    if case.window_open && !matches!(case.ep, Ep::GwMigrate | Ep::GasMigrate | Ep::OpsMigrate | Ep::ItsMigrate | Ep::TokMigrate) {
        s.env.mock_all_auths();
        let empty = BytesN::from_array(&s.env, &empty_wasm_hash());
        match case.ep.role() {
            Role::GwOwner | Role::GwOperator => s.gw.upgrade(&empty),
            Role::GasOwner | Role::GasCollector => s.gas.upgrade(&empty),
            Role::OpsOwner => s.ops.upgrade(&empty),
            Role::ItsOwner => s.its.upgrade(&empty),
            Role::TokenOwner => s.token.upgrade(&empty),
        }
    }
    if case.pre_applied && case.ep.idempotent() {
        s.env.mock_all_auths();
        if let Some(role) = case.ep.is_transfer() {
            // the role already went to the beneficiary; the studied call transfers it to the same address again
            if transfer_role(&s, role, &s.pool[EXTRA_A]) {
                let prev = m.holder[&role];
                m.former.get_mut(&role).unwrap().push(prev);
                m.holder.insert(role, EXTRA_A);
            }
        } else {
            prepare(&s, case.ep);
            let _ = call(&s, case.ep, 0);
        }
    }
    let mut s = s;
    if let Some(role) = case.ep.is_transfer() {
        let own = match role {
            Role::GwOwner | Role::GwOperator => s.gw.address.clone(),
            Role::GasOwner | Role::GasCollector => s.gas.address.clone(),
            Role::OpsOwner => s.ops.address.clone(),
            Role::ItsOwner => s.its.address.clone(),
            Role::TokenOwner => s.token.address.clone(),
        };
        match case.successor % 4 {
            1 => s.named = own,
            2 => s.named = s.asset.clone(),
            3 => s.named = s.pool[m.holder[&role]].clone(),
            _ => {}
        }
    }
    if matches!(case.ep, Ep::GasCollectFees | Ep::GasRefund) && case.successor % 4 == 3 {
        // the payout names the collector itself as receiver and asks for everything the service holds
        s.named = s.pool[m.holder[&Role::GasCollector]].clone();
    }
    (s, m)
}

/// amount of the studied payout: 1 (2 for the other-arguments variant), or the whole balance when the collector is the receiver
fn payout_amount(s: &Sys, alt: bool) -> i128 {
    if alt {
        2
    } else if s.named == s.gas.gas_collector() {
        1000
    } else {
        1
    }
}

impl Property for C06 {
    type Case = Case;
    fn id(&self) -> &'static str {
        "C06"
    }
    fn rule(&self) -> &'static str {
        "every case = (role-transfer history over the 6 transferable roles of the 5 role-bearing contracts, one of 29 administrative entry points, for role transfers the named successor being an uninvolved account / the called contract itself / another contract / the current holder, optionally with the objects the call acts on (operator, minter, trusted chain, open migration window, held fees) created before the history by the holder of that time, deployments in which one address holds both roles of the gateway and of the gas service (each role must then move, or stay, on its own), one of 7 principal classes: current holder, former holder, holder of another role, beneficiary named in the arguments, stranger, nobody, holder-authorised-other-arguments). The full 29x7 matrix with an empty history is enumerated in every run (fixed cases), once in the ordinary state and once with the contract's migration window open (upgraded, not yet migrated); for the idempotent entry points (role transfers, add/remove minter, upgrade) also the variant in which the same change was already applied once; proptest adds histories of 1-5 transfers (incl. to self, to the other role's holder, and back). Engine: the authorisation trees the call needs are recorded in a twin world with all auths mocked, then replayed in a fresh identical world in which exactly one principal signs the tree recorded for the role holder. Oracle: role model: success iff that principal is the current holder (and signed these exact arguments); refusals must leave the ledger snapshot identical; after an accepted transfer the role query names exactly the successor. non-trivial = principal is not simply the initial holder (principal class != Holder, or history non-empty); distinct by Debug hash. A share of the random cases is an entry-point sweep (the exported functions of all shipped contracts are read from the sources of the tree under test; entry points absent from the pinned inventory get 300 deterministic cases each and half of the random sweep cases): one entry point is called on a fully deployed system (gateway, gas service, operators, token service with a deployed token owned by the service, stand-alone token, upgrader, example app; some contracts optionally upgraded-but-not-migrated) with arguments from pools of principals / contracts / tokens / names / ids / boundary amounts, every require_auth satisfied by the host's mock and recorded; cases where the mock let a contract sign are discarded; oracle: a change of any contract's owner, of the gateway operator, of the operator set, of the trusted chains, of a token's minters, or of a contract's code / migration state needs the current holder of the governing role among the recorded signers (or to be the called contract); non-trivial = the call succeeded Since round 12 the holder may also have signed the same entry point with exactly one argument differing (address named / amount / message id / token, for collect_fees, refund, mint, mint_from): must be refused."
    }
    fn fixed_is_exhaustive(&self) -> Option<&'static str> {
        Some("entry-point x principal matrix (29 x 7) with empty role history enumerated completely; histories sampled")
    }
    fn cases(&self, tier: Tier) -> u64 {
        tier.pick(10000, 100000)
    }
    fn strategy(&self, _tier: Tier) -> BoxedStrategy<Case> {
        let direct = (
            proptest::collection::vec((0u8..7, 0u8..POOL as u8).prop_map(|(role, to)| Xfer { role, to }), 0..6),
            prop::sample::select(EPS.to_vec()),
            prop::sample::select(PRINCIPALS.to_vec()),
            prop_oneof![3 => Just(false), 1 => Just(true)],
            prop_oneof![3 => Just(false), 1 => Just(true)],
            prop_oneof![5 => Just(0u8), 1 => Just(1u8), 1 => Just(2u8), 1 => Just(3u8)],
            prop_oneof![2 => Just(false), 1 => Just(true)],
            prop_oneof![3 => Just(false), 1 => Just(true)],
        )
            .prop_map(|(mut history, ep, principal, pre_applied, window_open, successor, prepared_by_earlier_holder, single_key)| {
                // bias the history toward the studied role
                let r = ROLES.iter().position(|r| *r == ep.role()).unwrap() as u8;
                for (i, x) in history.iter_mut().enumerate() {
                    if i % 2 == 0 {
                        x.role = r;
                    }
                }
                Case { history, ep, principal, pre_applied, window_open, sweep: None, successor, prepared_by_earlier_holder, single_key }
            })
            .boxed();
        match crate::sweep::strategy(crate::sweep::Rule::Roles) {
            Some(sw) => prop_oneof![2 => direct, 1 => sw.prop_map(|s| Case { history: vec![], ep: EPS[0], principal: PRINCIPALS[0], pre_applied: false, window_open: false, sweep: Some(s), successor: 0, prepared_by_earlier_holder: false, single_key: false })].boxed(),
            None => direct,
        }
    }
    fn fixed_cases(&self, _tier: Tier) -> Vec<Case> {
        let mut v: Vec<Case> = crate::sweep::fixed_cases(300).into_iter().map(|s| Case { history: vec![], ep: EPS[0], principal: PRINCIPALS[0], pre_applied: false, window_open: false, sweep: Some(s), successor: 0, prepared_by_earlier_holder: false, single_key: false }).collect();
        for ep in EPS {
            for p in PRINCIPALS {
                v.push(Case { history: vec![], ep, principal: p, pre_applied: false, window_open: false, sweep: None, successor: 0, prepared_by_earlier_holder: false, single_key: false });
                v.push(Case { history: vec![], ep, principal: p, pre_applied: false, window_open: true, sweep: None, successor: 0, prepared_by_earlier_holder: false, single_key: false });
                if ep.idempotent() {
                    v.push(Case { history: vec![], ep, principal: p, pre_applied: true, window_open: false, sweep: None, successor: 0, prepared_by_earlier_holder: false, single_key: false });
                }
                if matches!(ep, Ep::GasCollectFees | Ep::GasRefund | Ep::GwRotateBypass | Ep::GwTransferOperatorship | Ep::GasTransferOwnership | Ep::GwTransferOwnership) {
                    // one address held both roles at deployment; the owner role has since moved on
                    v.push(Case { history: vec![Xfer { role: 0, to: 8 }, Xfer { role: 2, to: 8 }], ep, principal: p, pre_applied: false, window_open: false, sweep: None, successor: 0, prepared_by_earlier_holder: false, single_key: true });
                    v.push(Case { history: vec![], ep, principal: p, pre_applied: false, window_open: false, sweep: None, successor: 0, prepared_by_earlier_holder: false, single_key: true });
                }
                if matches!(ep, Ep::GasCollectFees | Ep::GasRefund) {
                    v.push(Case { history: vec![], ep, principal: p, pre_applied: false, window_open: false, sweep: None, successor: 3, prepared_by_earlier_holder: false, single_key: false });
                }
                if ep.is_transfer().is_some() {
                    for successor in 1..4u8 {
                        v.push(Case { history: vec![], ep, principal: p, pre_applied: false, window_open: false, sweep: None, successor, prepared_by_earlier_holder: false, single_key: false });
                    }
                }
            }
        }
        v
    }

    fn run(&self, case: &Case, cx: &mut Cx) -> Result<(), String> {
        if let Some(sw) = &case.sweep {
            return crate::sweep::run(sw, cx, crate::sweep::Rule::Roles);
        }
        let ep = case.ep;
        let role = ep.role();
        if matches!(ep, Ep::GasCollectFees | Ep::GasRefund) && case.successor % 4 == 3 {
            cx.label("payout_of_the_whole_balance_to_the_collector_itself");
            cx.nontrivial();
        }
        if ep.is_transfer().is_some() && case.successor % 4 != 0 {
            if matches!(case.successor % 4, 1 | 2) && case.principal == Principal::Beneficiary {
                // a contract cannot sign
                return Ok(());
            }
            cx.label(["", "successor_is_the_called_contract_itself", "successor_is_another_contract", "successor_is_the_current_holder"][case.successor as usize % 4]);
            cx.nontrivial();
        }
        if let Principal::HolderOtherArg(k) = case.principal {
            if !ep.has_component(k) {
                return Ok(());
            }
            cx.label("holder_signed_a_call_differing_in_one_argument");
        }
        let other_call = case.principal == Principal::HolderOtherCall && ep.has_variant();
        // ---- twin world: record what the call needs
        let (ws, wm) = build(case);
        // the "other arguments" name pool[EXTRA_B]: if that is the studied successor too, it is the same call
        let other_call = other_call && !(ep.is_transfer().is_some() && ws.named == ws.pool[EXTRA_B]);
        if !prepares_early(case) {
            prepare(&ws, ep);
        }
        let holder_idx = wm.holder[&role];
        let holder_rec = ws.pool[holder_idx].clone();
        ensure_p!(query_role(&ws, role) == holder_rec, "role query for {:?} disagrees with the transfer history (expected pool[{}])", role, holder_idx);
        let one_arg: Option<u8> = match case.principal {
            Principal::HolderOtherArg(k) => Some(k),
            _ => None,
        };
        let other_call = other_call || one_arg.is_some();
        let (ok, recs) = auth::record(&ws.env, || call(&ws, ep, if let Some(k) = one_arg { 2 + k } else { other_call as u8 }));
        ensure_p!(ok, "{:?} failed although every authorisation was mocked and its preconditions hold (history {:?})", ep, case.history);
        let who_signed = auth::authorisers(&recs);
        let holder_sc = soroban_sdk::xdr::ScAddress::try_from(&holder_rec).unwrap();
        ensure_p!(
            who_signed.contains(&holder_sc),
            "{:?} did not require the authorisation of the current {:?} holder (pool[{}]); it required {:?}",
            ep,
            role,
            holder_idx,
            who_signed
        );
        // ---- replay world
        let (s, m) = build(case);
        if !prepares_early(case) {
            prepare(&s, ep);
        } else {
            cx.label("acted_on_object_created_by_an_earlier_holder");
        }
        let holder = s.pool[m.holder[&role]].clone();
        let principal: Option<Address> = match case.principal {
            Principal::Holder | Principal::HolderOtherCall | Principal::HolderOtherArg(_) => Some(holder.clone()),
            Principal::Former => Some(match m.former[&role].last() {
                Some(i) => s.pool[*i].clone(),
                None => s.pool[STRANGER].clone(),
            }),
            Principal::OtherRole => Some(s.pool[m.holder[&role.other()]].clone()),
            Principal::Beneficiary => Some(s.named.clone()),
            Principal::Stranger => Some(s.pool[STRANGER].clone()),
            Principal::Nobody => None,
        };
        let entries = match &principal {
            Some(p) => {
                // recorded addresses are valid in the replay world because world construction is deterministic
                let h = auth::sc_to_address(&s.env, &holder_sc);
                auth::readdress(&s.env, &recs, &h, p)
            }
            None => vec![],
        };
        auth::install(&s.env, &entries);
        let expect_ok = principal.as_ref() == Some(&holder) && !other_call;
        cx.label(&format!("{:?}", case.principal));
        if case.principal != Principal::Holder || !case.history.is_empty() {
            cx.nontrivial();
        }
        if !case.history.is_empty() {
            cx.label("with_role_history");
        }
        if case.window_open {
            cx.label("migration_window_open");
            cx.nontrivial();
        }
        if case.pre_applied && ep.idempotent() {
            cx.label("same_change_already_applied");
            cx.nontrivial();
        }
        if principal.as_ref() == Some(&holder) && !matches!(case.principal, Principal::Holder | Principal::HolderOtherCall | Principal::HolderOtherArg(_)) {
            cx.label("principal_class_coincides_with_holder");
        }
        let snap0 = snapshot(&s.env);
        let ev0 = events_len(&s.env);
        let ok = call(&s, ep, 0);
        if expect_ok {
            cx.count("must_succeed");
            ensure_p!(ok, "{:?} refused although the current {:?} holder authorised exactly this call (history {:?})", ep, role, case.history);
            effect_visible(&s, ep)?;
            if let Some(r) = ep.is_transfer() {
                ensure_p!(query_role(&s, r) == s.named, "after an accepted transfer the role does not belong to exactly the named successor");
            }
        } else {
            cx.count("must_fail");
            ensure_p!(
                !ok,
                "{:?} succeeded with authorisation from {:?} (not the current {:?} holder signing these arguments); history {:?}",
                ep,
                case.principal,
                role,
                case.history
            );
            ensure_p!(snapshot(&s.env) == snap0, "{:?}: refused call changed the ledger", ep);
            ensure_p!(events_len(&s.env) == ev0, "{:?}: refused call emitted events", ep);
            ensure_p!(query_role(&s, role) == holder, "role holder changed by a refused call");
        }
        Ok(())
    }
}
