//! C14 — the gas service holds exactly what was paid in minus what its collector paid out.

use crate::engine::{Cx, Property, Tier};
use crate::ensure_p;
use crate::oracle::keccak256;
use crate::world::*;
use axelar_soroban_std::types::Token;
use proptest::prelude::*;
#[allow(unused_imports)]
use crate::prop_oneof;
use serde::{Deserialize, Serialize};
use soroban_sdk::testutils::{Address as _, MockAuth, MockAuthInvoke};
use soroban_sdk::token::{StellarAssetClient, TokenClient};
use soroban_sdk::{Address, Bytes, IntoVal};

pub struct C14;

const NT: usize = 4; // two Stellar assets, the current-source InterchainToken, a harness token without amount checks
const SLOPPY: usize = 3;
const NS: usize = 3;
const NR: usize = 6; // receivers 0..2 are accounts, 3 is the gas service itself, 4 the gas collector, 5 the contract owner
const SELF_R: usize = 3;
const START: i128 = 500;

#[derive(Clone, Copy, Debug, Serialize, Deserialize, PartialEq, Eq)]
pub enum Amt {
    Zero,
    Neg,
    One,
    Small(u8),
    Bal,
    BalPlus1,
    Max,
}

#[derive(Clone, Copy, Debug, Serialize, Deserialize, PartialEq, Eq)]
pub enum By {
    Collector,
    /// a stranger authorises exactly this call
    Stranger,
    /// the contract owner authorises exactly this call
    Owner,
    Nobody,
    /// the gas collector authorised the same entry point with one argument different: k % 3 = 0 another receiver,
    /// 1 an amount one higher, 2 (refund) another message id / (collect) another token
    CollectorOtherArg(u8),
}

#[derive(Clone, Debug, Serialize, Deserialize, PartialEq, Eq)]
pub enum Op {
    Pay { spender: u8, token: u8, amount: Amt, payload_len: u8 },
    Add { spender: u8, token: u8, amount: Amt },
    Collect { by: By, receiver: u8, token: u8, amount: Amt },
    Refund { by: By, receiver: u8, token: u8, amount: Amt },
    /// the contract's ownership goes to a fresh address (the collector role must not move with it)
    TransferOwnership,
    /// the owner upgrades the gas service and completes the migration: collector and custody are carried over
    UpgradeAndMigrate,
    /// the ledger advances by this many days (custody, collector and dedup-free payouts do not depend on time)
    AdvanceDays(u8),
    /// somebody tries to take the service's custody through the token contract itself - `who`: a stranger, the token's
    /// owner / issuer, the token's minter, the gas collector, a spender; `how`: transfer_from / burn_from as spender
    /// (the service never approved anyone), or transfer / burn naming the service as holder but signed by `who` alone
    ThirdPartyPull { who: u8, token: u8, how: u8, all: bool },
    /// a payment / top-up that names the gas service itself as the spender (`sender_too`: and as the sender), signed by
    /// nobody (`signed` false) or by a stranger for exactly this call: no funds can come in that way, so if the service
    /// accepts and reports it as a payment its books no longer match its balance
    PayAsService { token: u8, amount: Amt, add: bool, sender_too: bool, signed: bool },
    /// a spender is given, and pays in, so much of the current-source token that the service ends up holding
    /// i128::MAX - `leave`: later payments of more than `leave` cannot be credited and must be refused, not clamped
    WhalePay { spender: u8, leave: u8 },
}

#[derive(Clone, Debug, Serialize, Deserialize)]
pub struct Case {
    pub ops: Vec<Op>,
    /// deployed with owner == gas collector
    #[serde(default)]
    pub single_key: bool,
    /// entry-point sweep case (see sweep.rs); the other fields are ignored
    #[serde(default)]
    pub sweep: Option<crate::sweep::SweepCase>,
}

fn amt() -> impl Strategy<Value = Amt> {
    prop_oneof![1 => Just(Amt::Zero), 1 => Just(Amt::Neg), 2 => Just(Amt::One), 5 => (2u8..90).prop_map(Amt::Small), 2 => Just(Amt::Bal), 2 => Just(Amt::BalPlus1), 1 => Just(Amt::Max)]
}
fn by() -> impl Strategy<Value = By> {
    prop_oneof![6 => Just(By::Collector), 1 => Just(By::Stranger), 1 => Just(By::Owner), 1 => Just(By::Nobody), 2 => (0u8..3).prop_map(By::CollectorOtherArg)]
}
fn op() -> impl Strategy<Value = Op> {
    prop_oneof![
        4 => (0u8..NS as u8, 0u8..NT as u8, amt(), 0u8..200).prop_map(|(spender, token, amount, payload_len)| Op::Pay { spender, token, amount, payload_len }),
        3 => (0u8..NS as u8, 0u8..NT as u8, amt()).prop_map(|(spender, token, amount)| Op::Add { spender, token, amount }),
        3 => (by(), 0u8..NR as u8, 0u8..NT as u8, amt()).prop_map(|(by, receiver, token, amount)| Op::Collect { by, receiver, token, amount }),
        3 => (by(), 0u8..NR as u8, 0u8..NT as u8, amt()).prop_map(|(by, receiver, token, amount)| Op::Refund { by, receiver, token, amount }),
        1 => Just(Op::TransferOwnership),
        1 => Just(Op::UpgradeAndMigrate),
        1 => (1u8..90).prop_map(Op::AdvanceDays),
        2 => (0u8..5, 0u8..3, 0u8..4, any::<bool>()).prop_map(|(who, token, how, all)| Op::ThirdPartyPull { who, token, how, all }),
        1 => (0u8..3, amt(), any::<bool>(), any::<bool>(), any::<bool>()).prop_map(|(token, amount, add, sender_too, signed)| Op::PayAsService { token, amount, add, sender_too, signed }),
        1 => (0u8..NS as u8, 0u8..40).prop_map(|(spender, leave)| Op::WhalePay { spender, leave }),
    ]
}

fn resolve(a: Amt, bal: i128) -> i128 {
    // (for the unchecked harness token i128::MAX would only overflow the token's own arithmetic)
    match a {
        Amt::Zero => 0,
        Amt::Neg => -1,
        Amt::One => 1,
        Amt::Small(k) => k as i128,
        Amt::Bal => bal,
        Amt::BalPlus1 => bal.saturating_add(1),
        Amt::Max => i128::MAX,
    }
}

impl Property for C14 {
    type Case = Case;
    fn id(&self) -> &'static str {
        "C14"
    }
    fn rule(&self) -> &'static str {
        "proptest histories (<=30 quick / <=60 thorough ops) over 4 tokens (two Stellar asset contracts, one current-source InterchainToken, and a harness token that checks neither sign nor balance, so that the service's own amount checks are what is tested), 3 spenders, 6 receivers (three accounts, the gas service itself, the gas collector, the contract owner): pay_gas, add_gas, collect_fees, refund with amounts 0, -1, 1, small, exact balance, balance+1, i128::MAX (relative to the spender's balance for payments and to the service's balance for payouts), payouts authorised by the collector, by a stranger, by the (current) contract owner, or by nobody; attempts to take the service's custody through the token contracts themselves (and payments / top-ups naming the gas service itself as spender - and sender -, signed by nobody or by a stranger, which must be refused: nothing can be paid in that way) (transfer_from / burn_from as spender without any approval by the service, transfer / burn naming the service but signed by the attacker alone; attacker = stranger, token owner / issuer, token minter, collector, spender), which must all fail; deployments with distinct owner and collector or with one address holding both roles, and ownership transfers in the history (the collector role must stay where it was). Oracle: per-token running balance = paid + added - collected - refunded, compared with token.balance(service) and all spender/receiver balances after every step; payments need amount > 0 and move exactly that; payouts need the collector and never exceed the balance; one gas service event per movement carrying the same token and amount; refused calls leave the ledger snapshot identical. non-trivial = history touches >= 2 tokens and contains a successful payout; distinct by Debug hash. One case in four is an entry-point sweep (the exported functions of all shipped contracts read from the sources of the tree under test; entry points absent from the pinned inventory get 300 deterministic cases each and half of the random ones): one entry point is called on a fully deployed system whose gas service holds three tokens, arguments from pools of principals / contracts / tokens / boundary amounts, every require_auth satisfied by the host's mock and recorded; oracle: if the gas service's balance of any token decreased, the stored gas collector is among the recorded signers or is the called contract (cases where the mock let a contract sign are discarded); non-trivial = the call succeeded"
    }
    fn assumptions(&self) -> Vec<&'static str> {
        vec![
            "a zero-amount refund by the collector moves nothing and is not decided by the statement (Either)",
            "with the unchecked harness token, payments beyond the spender's balance and refunds outside 0..=held are the token's business, not the service's (Either)",
        ]
    }
    fn cases(&self, tier: Tier) -> u64 {
        tier.pick(3000, 40000)
    }
    fn strategy(&self, tier: Tier) -> BoxedStrategy<Case> {
        let direct = (proptest::collection::vec(op(), 1..=tier.pick(30usize, 60usize)), prop_oneof![2 => Just(false), 1 => Just(true)], crate::engine::repeats()).prop_map(|(ops, single_key, reps)| Case { ops: crate::engine::with_repeats(ops, &reps), single_key, sweep: None }).boxed();
        match crate::sweep::strategy(crate::sweep::Rule::GasOut) {
            Some(sw) => prop_oneof![3 => direct, 1 => sw.prop_map(|s| Case { ops: vec![], single_key: false, sweep: Some(s) })].boxed(),
            None => direct,
        }
    }
    fn fixed_cases(&self, _tier: Tier) -> Vec<Case> {
        crate::sweep::fixed_cases(300).into_iter().map(|s| Case { ops: vec![], single_key: false, sweep: Some(s) }).collect()
    }

    fn run(&self, case: &Case, cx: &mut Cx) -> Result<(), String> {
        if let Some(sw) = &case.sweep {
            return crate::sweep::run(sw, cx, crate::sweep::Rule::GasOut);
        }
        let env = new_env();
        let gas = deploy_gas_cfg(&env, case.single_key);
        let mut owner_now = gas.owner.clone();
        let spenders: Vec<Address> = (0..NS).map(|_| Address::generate(&env)).collect();
        let mut receivers: Vec<Address> = (0..3).map(|_| Address::generate(&env)).collect();
        receivers.push(gas.id.clone());
        receivers.push(gas.collector.clone());
        receivers.push(gas.owner.clone());
        let stranger = Address::generate(&env);
        let sender = Address::generate(&env);
        env.mock_all_auths();
        let mut tokens: Vec<Address> = vec![];
        for _ in 0..2 {
            let a = env.register_stellar_asset_contract_v2(Address::generate(&env)).address();
            for s in &spenders {
                StellarAssetClient::new(&env, &a).mint(s, &START);
            }
            tokens.push(a);
        }
        let towner = Address::generate(&env);
        let tminter = Address::generate(&env);
        let it = register_native_token(&env, &towner, Some(tminter.clone()), h32("c14", 0), "Gas", "GAS", 7);
        for s in &spenders {
            it.mint(s, &START);
        }
        tokens.push(it.address.clone());
        let sloppy_id = env.register(crate::probes::SloppyToken, ());
        let sloppy = crate::probes::SloppyTokenClient::new(&env, &sloppy_id);
        for s in &spenders {
            sloppy.mint(s, &START);
        }
        tokens.push(sloppy_id.clone());

        let mut sbal = [[START; NS]; NT]; // [token][spender]
        let mut rbal = [[0i128; NR]; NT];
        let mut held = [0i128; NT];
        let mut touched = [false; NT];
        let mut payout = false;
        let mut days_passed: u32 = 0;

        for (step, op) in case.ops.iter().enumerate() {
            if let Op::TransferOwnership = op {
                env.mock_all_auths();
                let new_owner = Address::generate(&env);
                gas.client.transfer_ownership(&new_owner);
                owner_now = new_owner;
                cx.label(if case.single_key { "ownership_moved_away_from_single_key" } else { "ownership_transferred" });
                continue;
            }
            if let Op::AdvanceDays(d) = op {
                if days_passed + *d as u32 <= 250 {
                    days_passed += *d as u32;
                    advance_ledgers(&env, *d as u32 * 17280);
                    cx.label("ledger_advanced_by_days");
                }
                continue;
            }
            if let Op::UpgradeAndMigrate = op {
                upgrade_and_migrate(&env, &gas.id).map_err(|e| format!("step {}: {}", step, e))?;
                cx.label("upgrade_and_migration_in_history");
                continue;
            }
            if let Op::ThirdPartyPull { who, token, how, all } = op {
                // (not the unchecked harness token: it lets anybody move anything)
                let ti = *token as usize % 3;
                let t = TokenClient::new(&env, &tokens[ti]);
                let w: Address = match who % 5 {
                    0 => stranger.clone(),
                    1 => {
                        if ti == 2 {
                            towner.clone()
                        } else {
                            StellarAssetClient::new(&env, &tokens[ti]).admin()
                        }
                    }
                    2 => tminter.clone(),
                    3 => gas.collector.clone(),
                    _ => spenders[0].clone(),
                };
                let amount = if *all { held[ti].max(1) } else { 1 };
                let args: soroban_sdk::Vec<soroban_sdk::Val> = match how % 4 {
                    0 => (w.clone(), gas.id.clone(), w.clone(), amount).into_val(&env),
                    1 => (w.clone(), gas.id.clone(), amount).into_val(&env),
                    2 => (gas.id.clone(), w.clone(), amount).into_val(&env),
                    _ => (gas.id.clone(), amount).into_val(&env),
                };
                let f = ["transfer_from", "burn_from", "transfer", "burn"][*how as usize % 4];
                // `who` signs this very call; nobody else signs anything
                let inv = MockAuthInvoke { contract: &tokens[ti], fn_name: f, args: args.clone(), sub_invokes: &[] };
                if is_account_kind(&w) {
                    continue;
                }
                env.mock_auths(&[MockAuth { address: &w, invoke: &inv }]);
                let snap0 = snapshot(&env);
                let r = env.try_invoke_contract::<soroban_sdk::Val, soroban_sdk::Error>(&tokens[ti], &soroban_sdk::Symbol::new(&env, f), args);
                let _ = t;
                cx.count("must_fail");
                if held[ti] > 0 {
                    cx.label(&format!("third_party_{}_on_custody_by_{}", f, ["stranger", "token_owner", "token_minter", "collector", "spender"][*who as usize % 5]));
                }
                ensure_p!(
                    !matches!(r, Ok(Ok(_))),
                    "step {}: {} took {} of token {} out of the gas service through the token's {} although the service authorised nothing and approved nobody",
                    step,
                    ["a stranger", "the token's owner", "the token's minter", "the collector (not through the service)", "a spender"][*who as usize % 5],
                    amount,
                    ti,
                    f
                );
                ensure_p!(snapshot(&env) == snap0, "step {}: refused {} on the service's custody changed the ledger", step, f);
                continue;
            }
            if let Op::WhalePay { spender, leave } = op {
                let ti = 2; // the current-source InterchainToken
                let si = *spender as usize % NS;
                let target = i128::MAX - *leave as i128;
                if held[ti] >= target {
                    continue;
                }
                let p = target - held[ti];
                env.mock_all_auths();
                if p > sbal[ti][si] {
                    it.mint(&spenders[si], &(p - sbal[ti][si]));
                    sbal[ti][si] = p;
                }
                let tok = Token { address: tokens[ti].clone(), amount: p };
                let r = gas.client.try_pay_gas(&sender, &sstr(&env, "dest-chain"), &sstr(&env, "dest-addr"), &Bytes::from_slice(&env, &[1]), &spenders[si], &tok, &Bytes::from_slice(&env, &[9, 9]));
                ensure_p!(matches!(r, Ok(Ok(()))), "step {} {:?}: a covered payment of {} (service would hold {}) was refused: {:?}", step, op, p, target, r);
                sbal[ti][si] -= p;
                held[ti] += p;
                touched[ti] = true;
                cx.label("service_holds_almost_i128_max_of_a_token");
                // (the per-step comparison of all balances is made after the next ordinary step)
                continue;
            }
            if let Op::PayAsService { token, amount, add, sender_too, signed } = op {
                // (not the unchecked harness token: it lets anybody move anything)
                let ti = *token as usize % 3;
                let a = resolve(*amount, held[ti]);
                let tok = Token { address: tokens[ti].clone(), amount: a };
                let snd = if *sender_too { gas.id.clone() } else { sender.clone() };
                let payload = seeded_bytes(step as u64, 40);
                let args: soroban_sdk::Vec<soroban_sdk::Val> = if *add {
                    (snd.clone(), sstr(&env, "msg-id"), gas.id.clone(), tok.clone()).into_val(&env)
                } else {
                    (snd.clone(), sstr(&env, "dest-chain"), sstr(&env, "dest-addr"), Bytes::from_slice(&env, &payload), gas.id.clone(), tok.clone(), Bytes::from_slice(&env, &[9, 9])).into_val(&env)
                };
                let f = if *add { "add_gas" } else { "pay_gas" };
                let inv = MockAuthInvoke { contract: &gas.id, fn_name: f, args: args.clone(), sub_invokes: &[] };
                if *signed {
                    env.mock_auths(&[MockAuth { address: &stranger, invoke: &inv }]);
                } else {
                    env.mock_auths(&[]);
                }
                let snap0 = snapshot(&env);
                let ev0 = events_len(&env);
                let r = env.try_invoke_contract::<soroban_sdk::Val, soroban_sdk::Error>(&gas.id, &soroban_sdk::Symbol::new(&env, f), args);
                let ok = matches!(r, Ok(Ok(_)));
                cx.count("must_fail");
                if held[ti] > 0 {
                    cx.label("payment_naming_the_service_itself_as_spender_while_it_holds_funds");
                }
                ensure_p!(
                    !ok,
                    "step {} {:?}: the service accepted (and reported) a payment of {} of token {} whose spender is the service itself, authorised by {}: nothing was paid in, so reported payments - payouts no longer equal its balance",
                    step,
                    op,
                    a,
                    ti,
                    if *signed { "a stranger" } else { "nobody" }
                );
                ensure_p!(snapshot(&env) == snap0 && events_len(&env) == ev0, "step {} {:?}: refused call changed the ledger or emitted events", step, op);
                continue;
            }
            let ti = match op {
                Op::Pay { token, .. } | Op::Add { token, .. } | Op::Collect { token, .. } | Op::Refund { token, .. } => *token as usize % NT,
                Op::TransferOwnership | Op::UpgradeAndMigrate | Op::AdvanceDays(_) | Op::ThirdPartyPull { .. } | Op::PayAsService { .. } | Op::WhalePay { .. } => unreachable!(),
            };
            let taddr = tokens[ti].clone();
            touched[ti] = true;
            #[derive(PartialEq)]
            enum E {
                Ok,
                Fail,
                Either,
            }
            let expect;
            let ok;
            let amount;
            let mut want_event: Option<(&'static str, Token)> = None;
            let mut want_hash: Option<[u8; 32]> = None;
            // authorisation set-up before the snapshot
            let by = match op {
                Op::Collect { by, .. } | Op::Refund { by, .. } => *by,
                _ => By::Collector,
            };
            match (op, by) {
                (Op::Pay { .. } | Op::Add { .. }, _) | (_, By::Collector) => env.mock_all_auths(),
                (_, By::Nobody) => env.mock_auths(&[]),
                (Op::TransferOwnership, _) | (Op::UpgradeAndMigrate, _) | (Op::AdvanceDays(_), _) | (Op::ThirdPartyPull { .. }, _) | (Op::PayAsService { .. }, _) | (Op::WhalePay { .. }, _) => unreachable!(),
                (Op::Collect { receiver, amount, .. }, b) => {
                    let a = resolve(if ti == SLOPPY && *amount == Amt::Max { Amt::BalPlus1 } else { *amount }, held[ti]);
                    let who = match b {
                        By::Stranger => &stranger,
                        By::CollectorOtherArg(_) => &gas.collector,
                        _ => &owner_now,
                    };
                    let (s_recv, s_tok, s_amt) = match b {
                        By::CollectorOtherArg(k) => match k % 3 {
                            0 => (receivers[(*receiver as usize + 1) % 3].clone(), taddr.clone(), a),
                            1 => (receivers[*receiver as usize % NR].clone(), taddr.clone(), if a == i128::MAX { a - 1 } else { a + 1 }),
                            _ => (receivers[*receiver as usize % NR].clone(), tokens[(ti + 1) % 3].clone(), a),
                        },
                        _ => (receivers[*receiver as usize % NR].clone(), taddr.clone(), a),
                    };
                    let inv = MockAuthInvoke {
                        contract: &gas.id,
                        fn_name: "collect_fees",
                        args: (s_recv, Token { address: s_tok, amount: s_amt }).into_val(&env),
                        sub_invokes: &[],
                    };
                    env.mock_auths(&[MockAuth { address: who, invoke: &inv }]);
                }
                (Op::Refund { receiver, amount, .. }, b) => {
                    let a = resolve(if ti == SLOPPY && *amount == Amt::Max { Amt::BalPlus1 } else { *amount }, held[ti]);
                    let who = match b {
                        By::Stranger => &stranger,
                        By::CollectorOtherArg(_) => &gas.collector,
                        _ => &owner_now,
                    };
                    let (s_msg, s_recv, s_amt) = match b {
                        By::CollectorOtherArg(k) => match k % 3 {
                            0 => ("msg", receivers[(*receiver as usize + 1) % 3].clone(), a),
                            1 => ("msg", receivers[*receiver as usize % NR].clone(), if a == i128::MAX { a - 1 } else { a + 1 }),
                            _ => ("msg-2", receivers[*receiver as usize % NR].clone(), a),
                        },
                        _ => ("msg", receivers[*receiver as usize % NR].clone(), a),
                    };
                    let inv = MockAuthInvoke {
                        contract: &gas.id,
                        fn_name: "refund",
                        args: (sstr(&env, s_msg), s_recv, Token { address: taddr.clone(), amount: s_amt }).into_val(&env),
                        sub_invokes: &[],
                    };
                    env.mock_auths(&[MockAuth { address: who, invoke: &inv }]);
                }
            }
            let snap0 = snapshot(&env);
            let ev0 = events_len(&env);
            match op {
                Op::Pay { spender, amount: a, payload_len, .. } => {
                    let si = *spender as usize % NS;
                    amount = resolve(if ti == SLOPPY && *a == Amt::Max { Amt::BalPlus1 } else { *a }, sbal[ti][si]);
                    expect = if amount > 0 && amount <= sbal[ti][si] && held[ti].checked_add(amount).is_none() {
                        // the service's balance cannot hold it: the payment cannot be credited
                        cx.label("payment_that_would_overflow_the_services_balance");
                        E::Fail
                    } else if amount > 0 && amount <= sbal[ti][si] {
                        E::Ok
                    } else if ti == SLOPPY && amount > sbal[ti][si] {
                        E::Either
                    } else {
                        E::Fail
                    };
                    let payload = seeded_bytes(step as u64, *payload_len as usize);
                    let tok = Token { address: taddr.clone(), amount };
                    let r = gas.client.try_pay_gas(&sender, &sstr(&env, "dest-chain"), &sstr(&env, "dest-addr"), &Bytes::from_slice(&env, &payload), &spenders[si], &tok, &Bytes::from_slice(&env, &[9, 9]));
                    ok = matches!(r, Ok(Ok(())));
                    if ok {
                        sbal[ti][si] -= amount;
                        held[ti] = held[ti].saturating_add(amount);
                        want_event = Some(("gas_paid", tok));
                        want_hash = Some(keccak256(&payload));
                    }
                }
                Op::Add { spender, amount: a, .. } => {
                    let si = *spender as usize % NS;
                    amount = resolve(if ti == SLOPPY && *a == Amt::Max { Amt::BalPlus1 } else { *a }, sbal[ti][si]);
                    expect = if amount > 0 && amount <= sbal[ti][si] && held[ti].checked_add(amount).is_none() {
                        cx.label("payment_that_would_overflow_the_services_balance");
                        E::Fail
                    } else if amount > 0 && amount <= sbal[ti][si] {
                        E::Ok
                    } else if ti == SLOPPY && amount > sbal[ti][si] {
                        E::Either
                    } else {
                        E::Fail
                    };
                    let tok = Token { address: taddr.clone(), amount };
                    let r = gas.client.try_add_gas(&sender, &sstr(&env, "msg-id"), &spenders[si], &tok);
                    ok = matches!(r, Ok(Ok(())));
                    if ok {
                        sbal[ti][si] -= amount;
                        held[ti] = held[ti].saturating_add(amount);
                        want_event = Some(("gas_added", tok));
                    }
                }
                Op::Collect { by, receiver, amount: a, .. } => {
                    let ri = *receiver as usize % NR;
                    amount = resolve(if ti == SLOPPY && *a == Amt::Max { Amt::BalPlus1 } else { *a }, held[ti]);
                    let signer_is_collector = *by == By::Collector || (*by == By::Owner && owner_now == gas.collector);
                    // (a receiver whose balance cannot hold the amount cannot be credited)
                    let fits = ri == SELF_R || TokenClient::new(&env, &taddr).balance(&receivers[ri]).checked_add(amount.max(0)).is_some();
                    expect = if signer_is_collector && amount > 0 && amount <= held[ti] && fits { E::Ok } else { E::Fail };
                    let tok = Token { address: taddr.clone(), amount };
                    let r = gas.client.try_collect_fees(&receivers[ri], &tok);
                    ok = matches!(r, Ok(Ok(())));
                    if ok {
                        if ri != SELF_R {
                            rbal[ti][ri] += amount;
                            held[ti] -= amount;
                        }
                        want_event = Some(("gas_collected", tok));
                        payout = true;
                    }
                }
                Op::TransferOwnership | Op::UpgradeAndMigrate | Op::AdvanceDays(_) | Op::ThirdPartyPull { .. } | Op::PayAsService { .. } | Op::WhalePay { .. } => unreachable!(),
                Op::Refund { by, receiver, amount: a, .. } => {
                    let ri = *receiver as usize % NR;
                    amount = resolve(if ti == SLOPPY && *a == Amt::Max { Amt::BalPlus1 } else { *a }, held[ti]);
                    let signer_is_collector = *by == By::Collector || (*by == By::Owner && owner_now == gas.collector);
                    let fits = ri == SELF_R || TokenClient::new(&env, &taddr).balance(&receivers[ri]).checked_add(amount.max(0)).is_some();
                    expect = if !signer_is_collector || !fits {
                        E::Fail
                    } else if ti == SLOPPY && (amount < 0 || amount > held[ti]) {
                        // refund relies on the token to refuse out-of-range amounts; with a token that
                        // checks nothing the outcome is not the gas service's promise
                        E::Either
                    } else if amount < 0 || amount > held[ti] {
                        E::Fail
                    } else if amount == 0 {
                        E::Either
                    } else {
                        E::Ok
                    };
                    let tok = Token { address: taddr.clone(), amount };
                    let r = gas.client.try_refund(&sstr(&env, "msg"), &receivers[ri], &tok);
                    ok = matches!(r, Ok(Ok(())));
                    if ok {
                        if ri != SELF_R {
                            rbal[ti][ri] += amount;
                            held[ti] -= amount;
                        }
                        want_event = Some(("gas_refunded", tok));
                        if amount > 0 {
                            payout = true;
                        }
                    }
                }
            }
            match expect {
                E::Ok => {
                    cx.count("must_succeed");
                    ensure_p!(ok, "step {} {:?}: refused although amount {} is positive and covered", step, op, amount);
                }
                E::Fail => {
                    cx.count("must_fail");
                    ensure_p!(!ok, "step {} {:?}: accepted (amount {}, service holds {}, by {:?})", step, op, amount, held[ti], by);
                }
                E::Either => cx.count("either"),
            }
            if !ok {
                ensure_p!(snapshot(&env) == snap0, "step {} {:?}: rejected call changed the ledger", step, op);
                ensure_p!(events_len(&env) == ev0, "step {} {:?}: rejected call emitted events", step, op);
            } else {
                let evs: Vec<_> = events_since(&env, ev0).into_iter().filter(|e| e.0 == gas.id).collect();
                let (name, tok) = want_event.unwrap();
                ensure_p!(evs.len() == 1, "step {} {:?}: expected exactly one gas service event, got {}", step, op, evs.len());
                let _ = (name, want_hash);
                ensure_p!(evs[0].1.contains(&scv(&env, tok)), "step {}: the movement's event does not carry the same token and amount: {:?}", step, evs[0].1);
            }
            // sweep
            for t in 0..NT {
                let tc = TokenClient::new(&env, &tokens[t]);
                ensure_p!(tc.balance(&gas.id) == held[t], "after step {} {:?}: service holds {} of token {} but payments - payouts = {}", step, op, tc.balance(&gas.id), t, held[t]);
                for s in 0..NS {
                    ensure_p!(tc.balance(&spenders[s]) == sbal[t][s], "after step {}: spender balance differs from the model", step);
                }
                for r in 0..NR {
                    if r != SELF_R {
                        // receivers may alias each other (single-key deployment: collector == owner): expected
                        // balance of an address = sum over the receiver slots that are this address
                        let want: i128 = (0..NR).filter(|q| *q != SELF_R && receivers[*q] == receivers[r]).map(|q| rbal[t][q]).sum();
                        ensure_p!(tc.balance(&receivers[r]) == want, "after step {}: receiver balance differs from the model", step);
                    }
                }
            }
        }
        if touched.iter().filter(|t| **t).count() >= 2 && payout {
            cx.nontrivial();
        }
        Ok(())
    }
}
