//! C16 — executable-interface apps act only on approved messages, exactly once.

use crate::engine::{Cx, Property, Tier};
use crate::ensure_p;
use crate::oracle::keccak256;
use crate::probes::{MiniApp, MiniAppClient};
use crate::world::*;
use axelar_gateway::executable::AxelarExecutableClient;
use axelar_gateway::types::Message;
use example::Example;
use proptest::prelude::*;
use serde::{Deserialize, Serialize};
use soroban_sdk::testutils::Address as _;
use soroban_sdk::{Address, Bytes, BytesN};

pub struct C16;

#[derive(Clone, Copy, Debug, Serialize, Deserialize, PartialEq, Eq)]
pub enum Dev {
    None,
    NeverApproved,
    ApprovedForOtherApp,
    ApprovedOtherPayload,
    ApprovedOtherSourceAddress,
    ApprovedOtherId,
    ApprovedOtherChain,
    DeliveredTwice,
    /// approved for this app, but another approval of the same content exists for the other app too
    AlsoApprovedForOtherApp,
    /// delivered, then the same signed approval batch is submitted to the gateway again, then delivered again
    ResubmittedApprovalAfterDelivery,
    /// delivered, then an approval for the same id with other content is submitted, then that content is delivered
    ReapprovedOtherContentAfterDelivery,
    /// delivered, then a NEW honestly signed batch is submitted in which the delivered message stands next to a message the
    /// gateway has not seen - k: 0 same id under another chain, in front; 1 same chain, another id, in front; 2 same id
    /// under another chain, behind; 3 chain and id mirrored (chain = the id, id = the chain), in front; 4 the delivered
    /// message listed twice - then delivered again
    ResubmittedBesideSiblingAfterDelivery(u8),
    /// approved for (chain + SEP + "p", id) but delivered as (chain, "p" + SEP + id): the same characters,
    /// split differently between chain and id
    ApprovedSeparatorShift(u8),
    /// approved with the chain / id / source address in another letter case, or with surrounding whitespace
    ApprovedCaseOrSpaceVariant(u8),
    /// approved for the account-kind address that carries the same 32 bytes as the app's contract address
    ApprovedForAddressKindTwin,
    /// approved under the chain of the case, but the delivery names another source chain ("ethereum" - which the
    /// token-service application trusts as an origin - or, if that is the case's chain, "avalanche")
    DeliveredNamingOtherChain,
}

/// (chain, id, src) with one field put in upper case / given a space
fn case_space_variant(chain: &str, id: &str, src: &str, k: u8) -> (String, String, String) {
    let f = |x: &str| -> String {
        if k / 3 % 2 == 0 {
            if x.to_lowercase() != x {
                // a name with upper-case letters: its lower-case form (what a normalising implementation would store)
                x.to_lowercase()
            } else if x.is_empty() || x.to_uppercase() == x {
                format!("{}X", x).to_lowercase() + "Y"
            } else {
                x.to_uppercase()
            }
        } else {
            format!("{} ", x)
        }
    };
    match k % 3 {
        0 => (f(chain), id.to_string(), src.to_string()),
        1 => (chain.to_string(), f(id), src.to_string()),
        _ => (chain.to_string(), id.to_string(), f(src)),
    }
}

const SEPS: [&str; 8] = ["", "_", ":", "-", "/", "|", ".", " "];

const DEVS: [Dev; 38] = [
    Dev::ResubmittedBesideSiblingAfterDelivery(0),
    Dev::ResubmittedBesideSiblingAfterDelivery(1),
    Dev::ResubmittedBesideSiblingAfterDelivery(2),
    Dev::ResubmittedBesideSiblingAfterDelivery(3),
    Dev::ResubmittedBesideSiblingAfterDelivery(4),
    Dev::DeliveredNamingOtherChain,
    Dev::ApprovedForAddressKindTwin,
    Dev::None,
    Dev::NeverApproved,
    Dev::ApprovedForOtherApp,
    Dev::ApprovedOtherPayload,
    Dev::ApprovedOtherSourceAddress,
    Dev::ApprovedOtherId,
    Dev::ApprovedOtherChain,
    Dev::DeliveredTwice,
    Dev::AlsoApprovedForOtherApp,
    Dev::ResubmittedApprovalAfterDelivery,
    Dev::ReapprovedOtherContentAfterDelivery,
    Dev::ApprovedSeparatorShift(0),
    Dev::ApprovedSeparatorShift(1),
    Dev::ApprovedSeparatorShift(2),
    Dev::ApprovedSeparatorShift(3),
    Dev::ApprovedSeparatorShift(4),
    Dev::ApprovedSeparatorShift(5),
    Dev::ApprovedSeparatorShift(6),
    Dev::ApprovedSeparatorShift(7),
    Dev::ApprovedCaseOrSpaceVariant(0),
    Dev::ApprovedCaseOrSpaceVariant(1),
    Dev::ApprovedCaseOrSpaceVariant(2),
    Dev::ApprovedCaseOrSpaceVariant(3),
    Dev::ApprovedCaseOrSpaceVariant(4),
    Dev::ApprovedCaseOrSpaceVariant(5),
    Dev::ApprovedCaseOrSpaceVariant(6),
    Dev::ApprovedCaseOrSpaceVariant(7),
    Dev::ApprovedCaseOrSpaceVariant(8),
    Dev::ApprovedCaseOrSpaceVariant(9),
    Dev::ApprovedCaseOrSpaceVariant(10),
    Dev::ApprovedCaseOrSpaceVariant(11),
];

#[derive(Clone, Debug, Serialize, Deserialize)]
pub struct Case {
    /// entry-point sweep case (see sweep.rs); the other fields are ignored
    #[serde(default)]
    pub sweep: Option<crate::sweep::SweepCase>,
    pub example_app: bool,
    pub dev: Dev,
    pub chain: u8,
    pub id: u8,
    pub src: u8,
    pub payload_len: u16,
    pub seed: u64,
    /// days that pass between the approval and the delivery
    #[serde(default)]
    pub days_before: u16,
    /// days that pass after the first delivery, before anything is tried again
    #[serde(default)]
    pub days_after: u16,
    /// after the first delivery the signer set is rotated (1: ordinary, 2: with the operator's bypass) and whatever
    /// is re-submitted afterwards is signed by the new set
    #[serde(default)]
    pub rotation_after: u8,
    /// the application is the token service itself (it uses the same interface): the delivery is a hub message
    /// minting a deployed token, from the hub chain and hub address
    #[serde(default)]
    pub its_app: bool,
}

const DAY: u32 = 17280;
const DAYS: [u16; 8] = [0, 0, 1, 29, 31, 61, 100, 150];

impl Property for C16 {
    type Case = Case;
    fn id(&self) -> &'static str {
        "C16"
    }
    fn rule(&self) -> &'static str {
        "proptest single cases: app (the shipped example / a minimal harness app that calls the interface's validate_message helper and aborts on error / in a quarter of the cases the token service itself, delivered a hub message that mints a deployed token) x delivery (chain, id, source address from small pools incl. empty strings and ids of 121 and 160 characters; payload 0..600 bytes) x at most one deviation (never approved; approved for another app / approved under the case's chain but delivered naming another source chain / for the account-kind address with the app's 32 bytes / another payload / source address / id / chain; delivered twice; additionally approved for the other app; approval re-submitted, or the id re-approved with other content, after delivery; approved under another split of the same characters between chain and id, for 8 separators; approval and delivery differing only in letter case or a trailing space of chain / id / source address, in either direction) x 0..150 days passing between approval and delivery and between the first delivery and whatever is tried afterwards, optionally with a signer rotation (ordinary or operator-bypass) after the first delivery, later approvals being signed by the new set, and optionally with a third party calling the gateway's validate_message for the delivered id in between (ledger sequence and clock advanced; temporary entries of that age are gone). All 2x33 app x deviation combinations are also enumerated as fixed cases. Oracle: the app's effect (its executed event / counter) and the gateway's transition to executed happen iff the gateway held a matching unexecuted approval naming this app; otherwise the delivery fails, nothing is emitted and the ledger snapshot is identical. non-trivial = a deviation is present; distinct by Debug hash Since rounds 12-13: after delivery the message may be re-submitted inside a new signed batch beside a sibling (same id under another chain in front / behind, same chain other id, chain and id exchanged, the message twice); the mirror image of the studied message may have been delivered before; one case in ten is an entry-point sweep (construction as for C13) on a world in which the example app has been delivered a message, with the rule: after the swept call and a re-submission of that message's approval the app does not take it a second time."
    }
    fn fixed_is_exhaustive(&self) -> Option<&'static str> {
        Some("app x deviation matrix (2 x 33) enumerated completely with one fixed delivery; deliveries sampled")
    }
    fn cases(&self, tier: Tier) -> u64 {
        tier.pick(20000, 200000)
    }
    fn strategy(&self, _tier: Tier) -> BoxedStrategy<Case> {
        let direct = (any::<bool>(), prop::sample::select(DEVS.to_vec()), 0u8..3, 0u8..5, 0u8..3, 0u16..600, any::<u64>(), prop::sample::select(DAYS.to_vec()), prop::sample::select(DAYS.to_vec()))
            .prop_map(|(example_app, dev, chain, id, src, payload_len, seed, days_before, days_after)| Case { sweep: None, example_app, dev, chain, id, src, payload_len, seed, days_before, days_after, rotation_after: (seed % 5).min(2) as u8 % 3, its_app: seed % 4 == 3 });
        let direct = direct.boxed();
        let blank = Case { sweep: None, example_app: true, dev: Dev::None, chain: 0, id: 0, src: 0, payload_len: 0, seed: 0, days_before: 0, days_after: 0, rotation_after: 0, its_app: false };
        match crate::sweep::strategy(crate::sweep::Rule::Redeliver) {
            Some(sw) => prop_oneof![9 => direct, 1 => sw.prop_map(move |s| Case { sweep: Some(s), ..blank.clone() })].boxed(),
            None => direct,
        }
    }
    fn fixed_cases(&self, _tier: Tier) -> Vec<Case> {
        let blank = Case { sweep: None, example_app: true, dev: Dev::None, chain: 0, id: 0, src: 0, payload_len: 0, seed: 0, days_before: 0, days_after: 0, rotation_after: 0, its_app: false };
        let mut v: Vec<Case> = crate::sweep::fixed_cases(300).into_iter().map(|s| Case { sweep: Some(s), ..blank.clone() }).collect();
        for example_app in [true, false] {
            for dev in DEVS {
                v.push(Case { sweep: None, example_app, dev, chain: 0, id: 0, src: 0, payload_len: 10, seed: 1, days_before: 0, days_after: 0, rotation_after: 0, its_app: false });
                if example_app {
                    v.push(Case { sweep: None, example_app, dev, chain: 0, id: 0, src: 0, payload_len: 10, seed: 1, days_before: 0, days_after: 0, rotation_after: 0, its_app: true });
                }
                if matches!(dev, Dev::None | Dev::DeliveredTwice | Dev::ResubmittedApprovalAfterDelivery | Dev::ReapprovedOtherContentAfterDelivery | Dev::ResubmittedBesideSiblingAfterDelivery(_)) {
                    for r in [1u8, 2] {
                        v.push(Case { sweep: None, example_app, dev, chain: 0, id: 0, src: 0, payload_len: 10, seed: 1, days_before: 0, days_after: 0, rotation_after: r, its_app: false });
                    }
                    for d in [31u16, 61, 150] {
                        v.push(Case { sweep: None, example_app, dev, chain: 0, id: 0, src: 0, payload_len: 10, seed: 1, days_before: 0, days_after: d, rotation_after: 0, its_app: false });
                        v.push(Case { sweep: None, example_app, dev, chain: 0, id: 0, src: 0, payload_len: 10, seed: 1, days_before: d, days_after: 0, rotation_after: 0, its_app: false });
                    }
                }
            }
        }
        v
    }

    fn run(&self, case: &Case, cx: &mut Cx) -> Result<(), String> {
        if let Some(sw) = &case.sweep {
            return crate::sweep::run(sw, cx, crate::sweep::Rule::Redeliver);
        }
        let itsw = if case.its_app { Some(crate::itsw::build_its_world("stellar", "hub-address", 2)) } else { None };
        let env = match &itsw {
            Some(w) => w.env.clone(),
            None => new_env(),
        };
        let set = match &itsw {
            Some(w) => w.set.clone(),
            None => simple_set(3),
        };
        let gw = match &itsw {
            Some(w) => Gw { client: axelar_gateway::AxelarGatewayClient::new(&env, &w.gw.id), id: w.gw.id.clone(), owner: w.gw.owner.clone(), operator: w.gw.operator.clone(), domain: w.gw.domain },
            None => deploy_gateway(&env, [8; 32], 0, 0, &[set.clone()]).map_err(|e| format!("setup: {}", e))?,
        };
        let gas = deploy_gas(&env);
        let example_id = env.register(Example, (&gw.id, &gas.id));
        let mini_id = env.register(MiniApp, (&gw.id,));
        let mini = MiniAppClient::new(&env, &mini_id);
        let (mut app, other_app) = if case.example_app { (example_id.clone(), mini_id.clone()) } else { (mini_id.clone(), example_id.clone()) };
        let stranger = Address::generate(&env);
        let mut its_payload: Option<Vec<u8>> = None;
        let mut its_token_id = [0u8; 32];
        if let Some(w) = &itsw {
            w.trust("ethereum");
            let (tid, _) = w.deploy_token(&w.users[0], &[7; 32], b"Sixteen", b"SXT", 6, 0, None).map_err(|e| format!("setup: {}", e))?;
            let inner = crate::oracle::AMsg::Transfer {
                token_id: tid,
                source: vec![1, 2],
                dest: crate::itsw::address_xdr(&env, &stranger),
                amount: crate::oracle::word_u128(1 + (case.seed % 50) as u128),
                data: vec![],
            };
            its_token_id = tid;
            its_payload = Some(crate::itsw::ItsWorld::receive_payload("ethereum", &inner));
            app = w.its.id.clone();
            cx.label("app_is_the_token_service");
        }
        let chains = ["ethereum", "", "Avalanche-Fuji"];
        // (the last two: 160 characters, as long as a transaction hash written twice plus an index; and 121, which
        // with "ethereum" makes 129)
        let long_a = format!("0x{}-7", "f".repeat(156));
        let long_b = format!("0x{}-7", "e".repeat(117));
        let ids = ["0xabc-1", "", "b", long_a.as_str(), long_b.as_str()];
        let srcs = ["0xsender", "", "c"];
        let chain = if case.its_app { crate::itsw::HUB_CHAIN } else { chains[case.chain as usize % 3] };
        // (one chain name has upper-case letters; the case-variant deviation turns it to lower case)
        let id = ids[case.id as usize % 5];
        let src = if case.its_app { "hub-address" } else { srcs[case.src as usize % 3] };
        let payload = match its_payload {
            Some(p) => p,
            None => seeded_bytes(case.seed, case.payload_len as usize),
        };
        let mk = |dest: &Address, chain: &str, id: &str, src: &str, payload: &[u8]| Message {
            source_chain: sstr(&env, chain),
            message_id: sstr(&env, id),
            source_address: sstr(&env, src),
            contract_address: dest.clone(),
            payload_hash: BytesN::from_array(&env, &keccak256(payload)),
        };
        let mut p2 = payload.clone();
        p2.push(1);
        let approvals: Vec<Message> = match case.dev {
            Dev::None | Dev::DeliveredTwice | Dev::ReapprovedOtherContentAfterDelivery | Dev::ResubmittedBesideSiblingAfterDelivery(_) => vec![mk(&app, chain, id, src, &payload)],
            // (a batch of two: another message, for the other app, stands in front of the studied one - the whole batch is
            // what gets re-submitted later, when both of its members are known to the gateway)
            Dev::ResubmittedApprovalAfterDelivery => vec![mk(&other_app, chain, &format!("{}-neighbour", id), src, &payload), mk(&app, chain, id, src, &payload)],
            Dev::NeverApproved => vec![],
            Dev::ApprovedForOtherApp => vec![mk(&other_app, chain, id, src, &payload)],
            Dev::ApprovedForAddressKindTwin => vec![mk(&kind_twin(&env, &app), chain, id, src, &payload)],
            Dev::DeliveredNamingOtherChain => vec![mk(&app, chain, id, src, &payload)],
            Dev::ApprovedOtherPayload => vec![mk(&app, chain, id, src, &p2)],
            Dev::ApprovedOtherSourceAddress => vec![mk(&app, chain, id, &format!("{}x", src), &payload)],
            Dev::ApprovedOtherId => vec![mk(&app, chain, &format!("{}x", id), src, &payload)],
            Dev::ApprovedOtherChain => vec![mk(&app, &format!("{}x", chain), id, src, &payload)],
            Dev::ApprovedSeparatorShift(k) => {
                let sep = SEPS[k as usize % SEPS.len()];
                // delivered: (chain, "p" + sep + id)  -- see `deliver` below
                vec![mk(&app, &format!("{}{}p", chain, sep), id, src, &payload)]
            }
            Dev::ApprovedCaseOrSpaceVariant(k) => {
                // k % 3: which field; (k / 3) % 2: letter case or surrounding space; k / 6: the variant is in the
                // approval (delivery plain) or in the delivery (approval plain, see below)
                if k / 6 % 2 == 1 {
                    vec![mk(&app, chain, id, src, &payload)]
                } else {
                    let (c2, i2, s2) = case_space_variant(chain, id, src, k);
                    vec![mk(&app, &c2, &i2, &s2, &payload)]
                }
            }
            Dev::AlsoApprovedForOtherApp => vec![mk(&app, chain, id, src, &payload), mk(&other_app, chain, &format!("{}y", id), src, &payload)],
        };
        if !approvals.is_empty() {
            gw.approve(&env, &set, &approvals)?;
        }
        let _ = stranger;
        if case.seed % 7 == 5 {
            // (should the tree's migration take data, the owner names the approved messages)
            let hints = MigHints { pairs: approvals.iter().map(|m| (m.source_chain.to_string(), m.message_id.to_string())).collect(), ..Default::default() };
            upgrade_and_migrate_with(&env, &gw.id, &hints).map_err(|e| format!("setup: {}", e))?;
            cx.label("gateway_upgraded_and_migrated_between_approval_and_delivery");
        }
        // the gateway's owner has upgraded it and not yet completed the migration: whether deliveries are served in
        // that window is not decided by the statement, but a served delivery must still consume its approval
        let window_open = case.seed % 7 == 6;
        if window_open {
            env.mock_all_auths();
            gw.client.upgrade(&BytesN::from_array(&env, &empty_wasm_hash()));
            env.set_auths(&[]);
            cx.label("gateway_migration_window_open_during_delivery");
        }
        if case.days_before > 0 {
            advance_ledgers(&env, DAY * case.days_before as u32);
            cx.label("days_pass_between_approval_and_delivery");
        }
        if case.dev != Dev::None {
            cx.nontrivial();
        }
        cx.label(&format!("{:?}", case.dev));
        if !case.its_app {
            cx.label(if case.example_app { "example_app" } else { "mini_app" });
        }

        let shifted_id: String = match case.dev {
            Dev::ApprovedSeparatorShift(k) => format!("p{}{}", SEPS[k as usize % SEPS.len()], id),
            _ => id.to_string(),
        };
        let id: &str = &shifted_id;
        // the delivery (not the approval) carries the case / space variant
        let delivered_variant = match case.dev {
            Dev::ApprovedCaseOrSpaceVariant(k) if k / 6 % 2 == 1 => Some(case_space_variant(chain, id, src, k)),
            _ => None,
        };
        let (chain, id, src): (&str, &str, &str) = match &delivered_variant {
            Some((c, i, s)) => (c, i, s),
            None => (chain, id, src),
        };
        let chain: &str = if case.dev == Dev::DeliveredNamingOtherChain {
            if chain == "ethereum" {
                "avalanche"
            } else {
                "ethereum"
            }
        } else {
            chain
        };
        let client = AxelarExecutableClient::new(&env, &app);
        env.set_auths(&[]);
        let deliver = || {
            matches!(
                client.try_execute(&sstr(&env, chain), &sstr(&env, id), &sstr(&env, src), &Bytes::from_slice(&env, &payload)),
                Ok(Ok(()))
            )
        };
        let app_events = |from: u32| -> usize { events_since(&env, from).into_iter().filter(|e| e.0 == app).count() };
        let executed = || gw.client.is_message_executed(&sstr(&env, chain), &sstr(&env, id));

        // the mirror image of the studied message (chain and id exchanged) was approved for and delivered to the same app
        // earlier: another message altogether, whose status must not shadow the studied one's
        if case.seed % 11 == 10 && !case.its_app && chain != id && !window_open {
            gw.approve(&env, &set, &[mk(&app, id, chain, src, &payload)])?;
            env.set_auths(&[]);
            let okm = matches!(client.try_execute(&sstr(&env, id), &sstr(&env, chain), &sstr(&env, src), &Bytes::from_slice(&env, &payload)), Ok(Ok(())));
            ensure_p!(okm, "delivery of an approved message (chain and id exchanged with respect to the studied one) to the app failed");
            cx.label("mirror_image_message_delivered_before");
        }
        let matching = matches!(case.dev, Dev::None | Dev::DeliveredTwice | Dev::AlsoApprovedForOtherApp | Dev::ResubmittedApprovalAfterDelivery | Dev::ReapprovedOtherContentAfterDelivery | Dev::ResubmittedBesideSiblingAfterDelivery(_));
        let snap0 = snapshot(&env);
        let ev0 = events_len(&env);
        let count0 = mini.count();
        let ok = deliver();
        if matching && window_open && !ok {
            cx.count("either");
            ensure_p!(events_len(&env) == ev0 && snapshot(&env) == snap0, "a refused delivery had effects");
        } else if matching {
            cx.count(if window_open { "either" } else { "must_succeed" });
            ensure_p!(ok, "delivery of an approved message to the app failed");
            ensure_p!(app_events(ev0) >= 1, "the app showed no effect for an approved delivery");
            ensure_p!(executed(), "gateway does not report the message executed");
            if !case.example_app && !case.its_app {
                ensure_p!(mini.count() == count0 + 1, "app counter not incremented");
            }
            if case.its_app {
                let t = soroban_sdk::token::TokenClient::new(&env, &itsw.as_ref().unwrap().its.client.token_address(&BytesN::from_array(&env, &its_token_id)));
                ensure_p!(t.balance(&stranger) == 1 + (case.seed % 50) as i128, "the token service did not credit the recipient named in the delivered message");
            }
            // a delivered message cannot be delivered again, however much later
            if case.days_after > 0 {
                advance_ledgers(&env, DAY * case.days_after as u32);
                cx.label(if case.days_after > 60 { "more_than_60_days_pass_after_delivery" } else { "days_pass_after_delivery" });
            }
            let mut set = set;
            if case.rotation_after % 3 != 0 {
                let next = simple_set(77);
                env.mock_all_auths();
                ensure_p!(gw.rotate(&env, &next, &set, set.full_mask(), case.rotation_after % 3 == 2), "honest rotation refused");
                env.set_auths(&[]);
                set = next;
                cx.label(if case.rotation_after % 3 == 2 { "bypass_rotation_after_delivery" } else { "rotation_after_delivery" });
            }
            if case.seed % 3 == 0 {
                // a third party asks the gateway to consume the same id for itself (a public entry point): it gets
                // `false`, and that must be all
                env.mock_all_auths();
                let r = gw.client.try_validate_message(&stranger, &sstr(&env, chain), &sstr(&env, id), &sstr(&env, src), &BytesN::from_array(&env, &keccak256(&payload)));
                env.set_auths(&[]);
                ensure_p!(!matches!(r, Ok(Ok(true))), "the gateway let a third party consume a message approved for the app");
                cx.label("third_party_validate_message_after_delivery");
            }
            let snap1 = snapshot(&env);
            let ev1 = events_len(&env);
            let again = deliver();
            cx.count("must_fail");
            ensure_p!(!again, "a delivered message was accepted by the app a second time");
            ensure_p!(snapshot(&env) == snap1 && events_len(&env) == ev1, "second delivery had effects");
            match case.dev {
                Dev::ResubmittedApprovalAfterDelivery => {
                    // anybody can re-submit the (public) signed batch; the id stays executed
                    gw.approve(&env, &set, &approvals)?;
                    env.set_auths(&[]);
                    let ev2 = events_len(&env);
                    ensure_p!(!deliver(), "a delivered message was accepted again after its approval had been re-submitted to the gateway");
                    ensure_p!(app_events(ev2) == 0, "the app acted on a re-opened message");
                    ensure_p!(executed(), "gateway no longer reports the message executed");
                }
                Dev::ResubmittedBesideSiblingAfterDelivery(k) => {
                    let me = mk(&app, chain, id, src, &payload);
                    let other_chain = format!("{}-sibling", chain);
                    let batch = match k % 5 {
                        0 => vec![mk(&other_app, &other_chain, id, src, &payload), me],
                        1 => vec![mk(&other_app, chain, &format!("{}-sibling", id), src, &payload), me],
                        2 => vec![me, mk(&other_app, &other_chain, id, src, &payload)],
                        3 => vec![mk(&other_app, id, chain, src, &payload), me],
                        _ => vec![me.clone(), me],
                    };
                    gw.approve(&env, &set, &batch)?;
                    env.set_auths(&[]);
                    let ev2 = events_len(&env);
                    ensure_p!(!deliver(), "a delivered message was accepted again after it had been re-submitted to the gateway in a new batch beside a sibling message (variant {})", k % 5);
                    ensure_p!(app_events(ev2) == 0, "the app acted on a re-opened message");
                    ensure_p!(executed(), "gateway no longer reports the message executed");
                    cx.label("delivered_message_resubmitted_beside_a_sibling");
                }
                Dev::ReapprovedOtherContentAfterDelivery => {
                    gw.approve(&env, &set, &[mk(&app, chain, id, src, &p2)])?;
                    env.set_auths(&[]);
                    let ev2 = events_len(&env);
                    let again2 = matches!(client.try_execute(&sstr(&env, chain), &sstr(&env, id), &sstr(&env, src), &Bytes::from_slice(&env, &p2)), Ok(Ok(())));
                    ensure_p!(!again2, "an executed message id was delivered again with other content after a new approval for that id");
                    ensure_p!(app_events(ev2) == 0, "the app acted on a re-used message id");
                }
                _ => {}
            }
        } else {
            cx.count("must_fail");
            ensure_p!(!ok, "the app executed a delivery for which the gateway holds no matching approval ({:?})", case.dev);
            ensure_p!(events_len(&env) == ev0, "rejected delivery emitted events");
            ensure_p!(snapshot(&env) == snap0, "rejected delivery changed the ledger");
            ensure_p!(!executed() || false, "gateway reports the message executed");
        }
        Ok(())
    }
}
