use crate::engine::{self, Extra, Tier};
use std::path::Path;

pub mod c01;
pub mod c02;
pub mod c03;
pub mod c04;
pub mod c05;
pub mod c06;
pub mod c07;
pub mod c08;
pub mod c09;
pub mod c10;
pub mod c10core;
pub mod c11;
pub mod c12;
pub mod c13;
pub mod c14;
pub mod c15;
pub mod c16;
pub mod c17;
pub mod c18;
pub mod gwgen;

macro_rules! dispatch {
    ($id:expr, $f:ident, $($name:literal => $p:expr),* $(,)?) => {
        match $id {
            $($name => $f!($p),)*
            _ => { eprintln!("unknown property {}", $id); 2 }
        }
    };
}

pub fn run(id: &str, tier: Tier, seed: u64) -> i32 {
    macro_rules! go { ($p:expr) => { engine::run_property($p, tier, seed, Extra::new()) }; }
    dispatch!(id, go,
        "C01" => c01::C01,
        "C02" => c02::C02,
        "C03" => c03::C03,
        "C04" => c04::C04,
        "C05" => c05::C05,
        "C06" => c06::C06,
        "C07" => c07::C07,
        "C08" => c08::C08,
        "C09" => c09::C09,
        "C10" => c10::C10,
        "C11" => c11::C11,
        "C12" => c12::C12,
        "C13" => c13::C13,
        "C14" => c14::C14,
        "C15" => c15::C15,
        "C16" => c16::C16,
        "C17" => c17::C17,
        "C18" => c18::C18,
    )
}

pub fn replay(id: &str, path: &Path) -> i32 {
    macro_rules! go { ($p:expr) => { engine::replay_property($p, path) }; }
    dispatch!(id, go,
        "C01" => c01::C01,
        "C02" => c02::C02,
        "C03" => c03::C03,
        "C04" => c04::C04,
        "C05" => c05::C05,
        "C06" => c06::C06,
        "C07" => c07::C07,
        "C08" => c08::C08,
        "C09" => c09::C09,
        "C10" => c10::C10,
        "C11" => c11::C11,
        "C12" => c12::C12,
        "C13" => c13::C13,
        "C14" => c14::C14,
        "C15" => c15::C15,
        "C16" => c16::C16,
        "C17" => c17::C17,
        "C18" => c18::C18,
    )
}

/// one coverage-guided fuzz execution (see engine::fuzz_one)
pub fn fuzz(id: &str, data: &[u8]) -> Option<(String, String)> {
    macro_rules! go { ($p:expr) => { engine::fuzz_one(&$p, data) }; }
    match id {
        "C01" => go!(c01::C01), "C02" => go!(c02::C02), "C03" => go!(c03::C03), "C04" => go!(c04::C04), "C05" => go!(c05::C05), "C06" => go!(c06::C06),
        "C07" => go!(c07::C07), "C08" => go!(c08::C08), "C09" => go!(c09::C09), "C10" => go!(c10::C10), "C11" => go!(c11::C11), "C12" => go!(c12::C12),
        "C13" => go!(c13::C13), "C14" => go!(c14::C14), "C15" => go!(c15::C15), "C16" => go!(c16::C16), "C17" => go!(c17::C17), "C18" => go!(c18::C18),
        _ => None,
    }
}

pub fn fuzz_seeds(id: &str, n: usize, seed: u64) -> Vec<Vec<u8>> {
    macro_rules! go { ($p:expr) => { engine::fuzz_seed_inputs(&$p, n, seed) }; }
    match id {
        "C01" => go!(c01::C01), "C02" => go!(c02::C02), "C03" => go!(c03::C03), "C04" => go!(c04::C04), "C05" => go!(c05::C05), "C06" => go!(c06::C06),
        "C07" => go!(c07::C07), "C08" => go!(c08::C08), "C09" => go!(c09::C09), "C10" => go!(c10::C10), "C11" => go!(c11::C11), "C12" => go!(c12::C12),
        "C13" => go!(c13::C13), "C14" => go!(c14::C14), "C15" => go!(c15::C15), "C16" => go!(c16::C16), "C17" => go!(c17::C17), "C18" => go!(c18::C18),
        _ => vec![],
    }
}

/// (identical, tried) per property: recorded random cases regenerated from their bytes
pub fn fuzz_roundtrip_all(n: usize) -> Vec<(&'static str, usize, Option<(String, String)>)> {
    let mut v = vec![];
    macro_rules! go { ($id:literal, $p:expr) => {{ let (s, d) = engine::fuzz_roundtrip(&$p, n); v.push(($id, s, d)); }}; }
    go!("C01", c01::C01); go!("C02", c02::C02); go!("C03", c03::C03); go!("C04", c04::C04); go!("C05", c05::C05); go!("C06", c06::C06);
    go!("C07", c07::C07); go!("C08", c08::C08); go!("C09", c09::C09); go!("C10", c10::C10); go!("C11", c11::C11); go!("C12", c12::C12);
    go!("C13", c13::C13); go!("C14", c14::C14); go!("C15", c15::C15); go!("C16", c16::C16); go!("C17", c17::C17); go!("C18", c18::C18);
    v
}
