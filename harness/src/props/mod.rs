use crate::engine::{self, Extra, Tier};
use std::path::Path;

pub mod c12;

macro_rules! dispatch {
    ($id:expr, $f:ident, $($name:literal => $p:expr),* $(,)?) => {
        match $id {
            $($name => $f!($p),)*
            _ => { eprintln!("unknown property {}", $id); 2 }
        }
    };
}

pub fn run(id: &str, tier: Tier, seed: u64) -> i32 {
    macro_rules! go { ($p:expr) => { engine::run_property($p, tier, seed, Extra::new()) }; }
    dispatch!(id, go,
        "C12" => c12::C12,
    )
}

pub fn replay(id: &str, path: &Path) -> i32 {
    macro_rules! go { ($p:expr) => { engine::replay_property($p, path) }; }
    dispatch!(id, go,
        "C12" => c12::C12,
    )
}
