//! C08 — old signer sets stay valid for exactly the configured number of rotations.
//! After every step of a rotation history every installed set is probed on both paths.

use super::gwgen::*;
use crate::engine::{Cx, Property, Tier};
use crate::ensure_p;
use crate::world::*;
use axelar_gateway::types::Message;
use proptest::prelude::*;
#[allow(unused_imports)]
use crate::prop_oneof;
use serde::{Deserialize, Serialize};
use soroban_sdk::testutils::Address as _;
use soroban_sdk::{Address, BytesN};

pub struct C08;

const RETENTIONS: [u64; 18] = [0, 1, 2, 3, 5, 100, u64::MAX, u64::MAX - 1, u64::MAX - 3, 1 << 63, 7, 8, 15, 16, 17, 31, 32, 64];

#[derive(Clone, Debug, Serialize, Deserialize, PartialEq, Eq)]
pub struct Step {
    /// proving set: installed index, newest first (monotone)
    pub prover: u16,
    pub bypass: bool,
    pub operator_auth: bool,
    pub cand: SetGen,
    /// days that pass before this step (installed sets must not decay with time)
    #[serde(default)]
    pub days_before: u8,
    /// the candidate is a set that is already installed (the attempt must fail and must not age anybody)
    #[serde(default)]
    pub repeat_installed: Option<u16>,
}

#[derive(Clone, Debug, Serialize, Deserialize)]
pub struct Case {
    pub retention: u8,
    pub initial: Vec<SetGen>,
    pub steps: Vec<Step>,
    /// honest rotations by the newest set made right after construction (a limit may only be met after accumulation)
    #[serde(default)]
    pub warmup_rotations: u8,
    /// entry-point sweep case (see sweep.rs); the other fields are ignored
    #[serde(default)]
    pub sweep: Option<crate::sweep::SweepCase>,
}

fn step() -> impl Strategy<Value = Step> {
    (prop_oneof![3 => Just(0u16), 2 => any::<u16>()], any::<bool>(), prop_oneof![4 => Just(true), 1 => Just(false)], setgen(3), prop_oneof![4 => Just(0u8), 1 => 1u8..100], prop_oneof![5 => Just(None), 1 => any::<u16>().prop_map(Some)])
        .prop_map(|(prover, bypass, operator_auth, cand, days_before, repeat_installed)| Step { prover, bypass, operator_auth, cand, days_before, repeat_installed })
}

impl Property for C08 {
    type Case = Case;
    fn id(&self) -> &'static str {
        "C08"
    }
    fn rule(&self) -> &'static str {
        "proptest: retention in {0,1,2,3,5,7,8,15,16,17,31,32,64,100,2^63,u64::MAX-3,u64::MAX-1,u64::MAX}, 1-4 initial sets, in one case in seven 1-69 honest warm-up rotations first (so that windows of 16, 32, 64 sets are actually filled and crossed), history of <=9 (quick) / <=14 (thorough) rotation attempts (proving set = any installed set, bypass flag, operator authorisation), optionally with up to 99 days passing before a step, and with the owner upgrading and migrating the gateway before some steps (retention and installed sets must be carried over), (<= 300 in total), and with candidates that are already installed (must fail and must not age any set). After construction and after every step EVERY installed set (in histories of more than 12 sets: the newest and oldest two and every set within two epochs of the configured window edge or of 8, 16, 32, 64) is probed on both paths: validate_proof over a fresh data hash and approve_messages of a unique message (sets outside the window additionally with a batch of already approved messages). Some approval commands are signed and shown to the standalone proof check at one step and submitted byte for byte at the next probe point (after whatever rotations happened in between). Oracle: honoured iff current_epoch - epoch(set) <= retention (validate_proof's flag true exactly for the newest set); a rotation attempt succeeds iff the proving set is the newest (no bypass) or within the window (bypass with operator authorisation). non-trivial = some probe lies exactly on the boundary (current - epoch in {retention, retention+1}); distinct by Debug hash"
    }
    fn cases(&self, tier: Tier) -> u64 {
        tier.pick(3000, 40000)
    }
    fn strategy(&self, tier: Tier) -> BoxedStrategy<Case> {
        let n = tier.pick(9usize, 14usize);
        let direct = (prop_oneof![2 => 0u8..10, 1 => 10u8..18, 1 => 18u8..36], proptest::collection::vec(setgen(3), 1..5), proptest::collection::vec(step(), 0..=n), prop_oneof![6 => Just(0u8), 1 => 1u8..70])
            .prop_map(|(retention, initial, steps, warmup_rotations)| Case { retention, initial, steps, warmup_rotations, sweep: None });
        let direct = direct.boxed();
        match crate::sweep::strategy(crate::sweep::Rule::Proofless) {
            Some(sw) => crate::prop_oneof![9 => direct, 1 => sw.prop_map(|s| Case { retention: 0, initial: vec![], steps: vec![], warmup_rotations: 0, sweep: Some(s) })].boxed(),
            None => direct,
        }
    }
    fn fixed_cases(&self, _tier: Tier) -> Vec<Case> {
        crate::sweep::fixed_cases(300).into_iter().map(|s| Case { retention: 0, initial: vec![], steps: vec![], warmup_rotations: 0, sweep: Some(s) }).collect()
    }

    fn run(&self, case: &Case, cx: &mut Cx) -> Result<(), String> {
        if let Some(sw) = &case.sweep {
            return crate::sweep::run(sw, cx, crate::sweep::Rule::Proofless);
        }
        let env = new_env();
        let retention = RETENTIONS[case.retention as usize % RETENTIONS.len()];
        let mut installed: Vec<BuiltSet> = case.initial.iter().enumerate().map(|(i, g)| g.build(i as u8)).collect();
        // (derived from the retention byte: saved cases keep their format) a non-zero minimum rotation delay; the harness
        // then lets exactly that long pass before every rotation, so every probe falls inside the delay window of the
        // latest rotation: how long ago the last rotation was is none of the retention window's business
        let delay: u64 = if case.retention as usize >= RETENTIONS.len() { 50 } else { 0 };
        if delay > 0 {
            cx.label("minimum_rotation_delay_nonzero");
        }
        let gw = deploy_gateway(&env, [9; 32], delay, retention, &installed).map_err(|e| format!("setup: {}", e))?;
        let mut model = SignerModel { retention, ..Default::default() };
        for b in &installed {
            model.install(b.hash());
        }
        let dest = Address::generate(&env);
        let mut probe_no: u64 = 0;
        let mut days_passed: u32 = 0;
        let mut last_approved: Option<Message> = None;
        let boundary = std::cell::Cell::new(false);
        // commands that were signed and shown to the standalone proof check at one point of the history and are
        // submitted, byte for byte, at a later one: (hash of the signing set, message, data hash, proof)
        let mut signed_earlier: Vec<([u8; 32], Message, axelar_gateway::types::Proof)> = vec![];

        let mut probe_all = |installed: &Vec<BuiltSet>, model: &SignerModel, at: &str, cx: &mut Cx| -> Result<(), String> {
            let many = installed.len() > 12;
            // first: what was signed (and pre-checked) at an earlier point is submitted now, unchanged
            for (h, m, proof) in std::mem::take(&mut signed_earlier) {
                let e = model.by_hash[&h];
                let live = model.epoch - e <= retention;
                let mut v = soroban_sdk::Vec::new(&env);
                v.push_back(m.clone());
                let r = gw.client.try_approve_messages(&v, &proof);
                let ok = matches!(r, Ok(Ok(())));
                cx.label("command_signed_and_prechecked_earlier_submitted_later");
                if live {
                    cx.count("must_succeed");
                    ensure_p!(ok, "{}: a command signed earlier by the set installed at epoch {} (still inside the window: current {}, retention {}) was refused: {:?}", at, e, model.epoch, retention, r);
                } else {
                    cx.count("must_fail");
                    ensure_p!(!ok, "{}: a command signed earlier by the set installed at epoch {}, and shown to the standalone proof check at that time, was honoured now although that set has left the window (current {}, retention {})", at, e, model.epoch, retention);
                }
            }
            for (i, s) in installed.iter().enumerate() {
                let h = s.hash();
                let e = model.by_hash[&h];
                let age = model.epoch - e;
                // long histories: probe the sets around every plausible window edge, the oldest and the newest ones
                if many {
                    let near = |x: u64| age + 2 >= x && age <= x.saturating_add(2);
                    if !(age <= 1 || i <= 1 || near(retention) || near(8) || near(16) || near(32) || near(64)) {
                        continue;
                    }
                }
                let live = age <= retention;
                if age == retention || Some(age) == retention.checked_add(1) {
                    boundary.set(true);
                    cx.label(if age == retention { "probe_at_last_valid_epoch" } else { "probe_first_epoch_after_window" });
                }
                // standalone proof check
                probe_no += 1;
                let dh = h32("c08-data", probe_no);
                let proof = s.proof(&env, &digest(&gw.domain, &h, &dh), s.full_mask());
                let r = gw.client.try_validate_proof(&BytesN::from_array(&env, &dh), &proof);
                if live {
                    cx.count("must_succeed");
                    ensure_p!(
                        matches!(r, Ok(Ok(f)) if f == (age == 0)),
                        "{}: validate_proof for set installed at epoch {} (current {}, retention {}) gave {:?}, expected Ok({})",
                        at,
                        e,
                        model.epoch,
                        retention,
                        r,
                        age == 0
                    );
                } else {
                    cx.count("must_fail");
                    ensure_p!(!matches!(r, Ok(Ok(_))), "{}: validate_proof honoured set {} installed at epoch {} although current epoch is {} and retention {}", at, i, e, model.epoch, retention);
                }
                // approval path
                probe_no += 1;
                let m = Message {
                    source_chain: sstr(&env, "chain"),
                    message_id: sstr(&env, &format!("probe-{}", probe_no)),
                    source_address: sstr(&env, "src"),
                    contract_address: dest.clone(),
                    payload_hash: BytesN::from_array(&env, &h32("ph", probe_no)),
                };
                let r = gw.approve(&env, s, &[m.clone()]);
                let approved = gw.client.is_message_approved(&m.source_chain, &m.message_id, &m.source_address, &m.contract_address, &m.payload_hash);
                if live {
                    cx.count("must_succeed");
                    ensure_p!(r.is_ok() && approved, "{}: approval by set installed at epoch {} refused (current {}, retention {}): {:?}", at, e, model.epoch, retention, r);
                    last_approved = Some(m.clone());
                    if signed_earlier.len() < 2 && probe_no % 3 == 0 {
                        probe_no += 1;
                        let m2 = Message { message_id: sstr(&env, &format!("later-{}", probe_no)), ..m.clone() };
                        let dh = approve_data_hash(&[message_sv(&env, &m2)]);
                        let proof = s.proof(&env, &digest(&gw.domain, &h, &dh), s.full_mask());
                        let pre = gw.client.try_validate_proof(&BytesN::from_array(&env, &dh), &proof);
                        ensure_p!(matches!(pre, Ok(Ok(_))), "{}: standalone check of a live set's proof over an approval command failed: {:?}", at, pre);
                        signed_earlier.push((h, m2, proof));
                    }
                } else {
                    cx.count("must_fail");
                    ensure_p!(r.is_err() && !approved, "{}: approval by set installed at epoch {} honoured although current epoch is {} and retention {}", at, e, model.epoch, retention);
                    // a batch that would change nothing (its only message is already approved) is no excuse either
                    if let Some(old) = &last_approved {
                        let r2 = gw.approve(&env, s, &[old.clone()]);
                        cx.count("must_fail");
                        ensure_p!(r2.is_err(), "{}: a proof from the set installed at epoch {} (outside the window: current {}, retention {}) was accepted for a batch of already approved messages", at, e, model.epoch, retention);
                    }
                }
            }
            Ok(())
        };

        probe_all(&installed, &model, "after construction", cx)?;
        if case.warmup_rotations > 0 {
            for j in 0..case.warmup_rotations as u64 {
                let newest = installed.last().unwrap().clone();
                if delay > 0 {
                    advance_time(&env, delay);
                }
                let cand = simple_set(3000 + j as u16);
                let nh = newest.hash();
                let proof = newest.proof(&env, &digest(&gw.domain, &nh, &cand.rotation_data_hash()), newest.full_mask());
                let r = gw.client.mock_auths(&[]).try_rotate_signers(&cand.to_soroban(&env), &proof, &false);
                ensure_p!(matches!(r, Ok(Ok(()))), "warm-up rotation {} by the newest set refused: {:?}", j, r);
                model.install(cand.hash());
                installed.push(cand);
            }
            cx.label(if case.warmup_rotations >= 16 { "history_of_16_or_more_rotations" } else { "history_with_warmup_rotations" });
            probe_all(&installed, &model, "after the warm-up rotations", cx)?;
        }
        for (k, st) in case.steps.iter().enumerate() {
            if st.days_before % 7 == 3 {
                // (derived from the existing field so that saved cases keep their format)
                upgrade_and_migrate(&env, &gw.id).map_err(|e| format!("step {}: {}", k, e))?;
                cx.label("upgrade_and_migration_in_history");
                probe_all(&installed, &model, &format!("after the upgrade and migration before step {}", k), cx)?;
            }
            if st.days_before > 0 && days_passed + st.days_before as u32 <= 300 {
                days_passed += st.days_before as u32;
                advance_ledgers(&env, st.days_before as u32 * 17280);
                cx.label("days_pass_between_steps");
            }
            if delay > 0 {
                advance_time(&env, delay);
            }
            let prover = installed[installed.len() - 1 - pick(st.prover, installed.len())].clone();
            let ph = prover.hash();
            let repeat = st.repeat_installed.map(|i| installed[pick(i, installed.len())].clone());
            let cand = match &repeat {
                Some(r) => {
                    cx.label("candidate_already_installed");
                    r.clone()
                }
                None => st.cand.build((case.initial.len() + k) as u8),
            };
            let page = model.epoch - model.by_hash[&ph];
            let expect_ok = repeat.is_none() && if st.bypass { st.operator_auth && page <= retention } else { page == 0 };
            if st.bypass && st.operator_auth && (page == retention || Some(page) == retention.checked_add(1)) {
                boundary.set(true);
                cx.label("bypass_rotation_at_window_boundary");
            }
            if !st.bypass && page > 0 && page <= retention {
                cx.label("non_bypass_rotation_by_retained_old_set");
            }
            let proof = prover.proof(&env, &digest(&gw.domain, &ph, &cand.rotation_data_hash()), prover.full_mask());
            let client = if st.operator_auth { gw.client.mock_all_auths() } else { gw.client.mock_auths(&[]) };
            let snap0 = snapshot(&env);
            let r = client.try_rotate_signers(&cand.to_soroban(&env), &proof, &st.bypass);
            let ok = matches!(r, Ok(Ok(())));
            if expect_ok {
                cx.count("must_succeed");
                ensure_p!(ok, "step {}: rotation by set aged {} (retention {}, bypass {}, operator auth {}) refused: {:?}", k, page, retention, st.bypass, st.operator_auth, r);
                model.install(cand.hash());
                installed.push(cand);
            } else {
                cx.count("must_fail");
                ensure_p!(!ok, "step {}: rotation by set aged {} (retention {}, bypass {}, operator auth {}) accepted", k, page, retention, st.bypass, st.operator_auth);
                ensure_p!(snapshot(&env) == snap0, "step {}: refused rotation changed the ledger", k);
            }
            ensure_p!(gw.client.epoch() == model.epoch, "epoch mismatch after step {}", k);
            probe_all(&installed, &model, &format!("after step {}", k), cx)?;
        }
        if boundary.get() {
            cx.nontrivial();
        }
        cx.label(&format!("retention_{}", retention));
        Ok(())
    }
}
