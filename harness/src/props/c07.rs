//! C07 — no spending, burning, sending or consuming for an address without its auth.
//! Entry-point x authoriser matrix by record-and-substitute, plus contract callers.

use crate::auth;
use crate::engine::{Cx, Property, Tier};
use crate::ensure_p;
use crate::oracle::keccak256;
use crate::probes::{Caller, CallerClient, Target};
use crate::sys::*;
use crate::world::*;
use axelar_gateway::types::Message;
use axelar_soroban_std::types::Token;
use example::{Example, ExampleClient};
use proptest::prelude::*;
#[allow(unused_imports)]
use crate::prop_oneof;
use serde::{Deserialize, Serialize};
use soroban_sdk::token::TokenClient;
use soroban_sdk::{Address, Bytes, BytesN, IntoVal, Symbol, Val, Vec as SVec};
use soroban_token_sdk::metadata::TokenMetadata;

pub struct C07;

#[derive(Clone, Copy, Debug, Serialize, Deserialize, PartialEq, Eq)]
pub enum Ep {
    TokApprove,
    TokTransfer,
    TokTransferFrom,
    TokBurn,
    TokBurnFrom,
    TokMintFrom,
    GasPay,
    GasAdd,
    GwCallContract,
    GwValidateMessage,
    ItsDeploy,
    ItsDeployRemote,
    ItsTransfer,
    ItsTransferCanonical,
    ItsDeployRemoteCanonical,
    OpsExecute,
    ExampleSend,
}

pub const EPS: [Ep; 17] = [
    Ep::TokApprove,
    Ep::TokTransfer,
    Ep::TokTransferFrom,
    Ep::TokBurn,
    Ep::TokBurnFrom,
    Ep::TokMintFrom,
    Ep::GasPay,
    Ep::GasAdd,
    Ep::GwCallContract,
    Ep::GwValidateMessage,
    Ep::ItsDeploy,
    Ep::ItsDeployRemote,
    Ep::ItsTransfer,
    Ep::ItsTransferCanonical,
    Ep::ItsDeployRemoteCanonical,
    Ep::OpsExecute,
    Ep::ExampleSend,
];

impl Ep {
    /// the call carries an amount that debits / credits somebody
    fn has_amount(self) -> bool {
        use Ep::*;
        matches!(self, TokApprove | TokTransfer | TokTransferFrom | TokBurn | TokBurnFrom | TokMintFrom | GasPay | GasAdd | ItsTransfer | ItsTransferCanonical | ItsDeployRemote | ItsDeployRemoteCanonical | ExampleSend)
    }
    /// authorisation needed only at the entry point itself (a calling contract needs no entries)
    fn single_level(self) -> bool {
        use Ep::*;
        matches!(self, TokApprove | TokTransfer | TokTransferFrom | TokBurn | TokBurnFrom | TokMintFrom | GwCallContract | GwValidateMessage | ItsDeploy | OpsExecute)
    }
}

#[derive(Clone, Copy, Debug, Serialize, Deserialize, PartialEq, Eq)]
pub enum Principal {
    Named,
    Counterparty,
    ContractOwner,
    Stranger,
    Nobody,
    /// the named address authorised the same entry point with other arguments
    NamedOtherArgs,
    /// a contract invokes the entry point naming itself, with no authorisation entries
    ContractNamingItself,
    /// a contract invokes the entry point naming another address, with no authorisation entries
    ContractNamingOther,
    /// every address argument is the called contract's own address, and nobody authorises anything
    /// (the contract is not its own caller: it must not be made to pay / send / act for itself)
    AllAddressesAliasCalledContract,
    /// every address argument is the named address, which does not authorise
    AllAddressesAliasNamedNobodySigns,
    /// the named address authorised the same entry point with an argument list that differs from the studied call in
    /// exactly the k-th argument (an amount one higher, a text / byte string one character longer, another third party,
    /// the amount inside a token argument): an authorisation covers one call, not a family of calls
    NamedOtherArg(u8),
}

const PRINCIPALS: [Principal; 17] = [
    Principal::NamedOtherArg(0),
    Principal::NamedOtherArg(1),
    Principal::NamedOtherArg(2),
    Principal::NamedOtherArg(3),
    Principal::NamedOtherArg(4),
    Principal::NamedOtherArg(5),
    Principal::NamedOtherArg(6),
    Principal::Named,
    Principal::Counterparty,
    Principal::ContractOwner,
    Principal::Stranger,
    Principal::Nobody,
    Principal::NamedOtherArgs,
    Principal::ContractNamingItself,
    Principal::ContractNamingOther,
    Principal::AllAddressesAliasCalledContract,
    Principal::AllAddressesAliasNamedNobodySigns,
];

#[derive(Clone, Debug, Serialize, Deserialize)]
pub struct Case {
    pub ep: Ep,
    pub principal: Principal,
    /// state variation: with / without pre-existing allowance for the counterparty, extra balance
    pub with_allowance_for_counterparty: bool,
    pub amount: u8,
    /// the grantor (counterparty) never approved the named spender: delegated spends must fail for everybody
    #[serde(default)]
    pub without_grantor_allowance: bool,
    /// the named address is the token's owner (and therefore a minter)
    #[serde(default)]
    pub named_is_token_owner: bool,
    /// (with `without_grantor_allowance`) the grantor did approve, but the approval has expired
    #[serde(default)]
    pub grantor_allowance_expired: bool,
    /// every upgradable contract was upgraded by its owner and not yet migrated
    #[serde(default)]
    pub windows_open: bool,
    /// the amount argument is negative: nobody may be debited or credited "backwards", whoever signs
    #[serde(default)]
    pub negative_amount: bool,
    /// entry-point sweep case (see sweep.rs); the other fields are ignored
    #[serde(default)]
    pub sweep: Option<crate::sweep::SweepCase>,
    /// (with `without_grantor_allowance`, not expired) the grantor approved and then revoked by approving 0:
    /// 1 with expiration 0, 2 with an expiration just passed, 3 with a future expiration; some ledgers passed before.
    /// 4: instead, the rightful spender spent the whole allowance on the very ledger it expires at; 5, 6: some ledgers earlier
    #[serde(default)]
    pub grantor_allowance_revoked: u8,
    /// wherever the call states a gas / fee token, that token is one anybody could deploy: its `transfer` asks nobody for
    /// authorisation (whoever relies on the token to authenticate the payer authenticates nobody)
    #[serde(default)]
    pub lax_gas_token: bool,
    /// (transfer_from) the recipient is the holder itself: a delegated move of the holder's funds "to the holder" is
    /// still a delegated spend and needs the allowance
    #[serde(default)]
    pub recipient_is_holder: bool,
}

fn blank() -> Case {
    Case { ep: EPS[0], principal: PRINCIPALS[0], with_allowance_for_counterparty: false, amount: 1, without_grantor_allowance: false, named_is_token_owner: false, grantor_allowance_expired: false, windows_open: false, negative_amount: false, sweep: None, grantor_allowance_revoked: 0, lax_gas_token: false, recipient_is_holder: false }
}

struct W<'a> {
    s: Sys<'a>,
    named: Address,
    counterparty: Address,
    probe: CallerClient<'a>,
    target: Address,
    example: ExampleClient<'a>,
    its_token: Address,
    its_token_id: [u8; 32],
    asset2: Address,
    owner_of_called: Address,
    /// the token stated as gas / fee token
    gas_token: Address,
    recipient_is_holder: bool,
}

const ITS_SALT: [u8; 32] = [5; 32];
const NEW_SALT: [u8; 32] = [6; 32];

fn build<'a>(case: &Case, named_is_probe: bool) -> W<'a> {
    let s = build_sys();
    let env = s.env.clone();
    env.mock_all_auths_allowing_non_root_auth();
    let probe_id = env.register(Caller, ());
    let probe = CallerClient::new(&env, &probe_id);
    let target = env.register(Target, ());
    let example_id = env.register(Example, (&s.gw.address, &s.gas.address));
    let example = ExampleClient::new(&env, &example_id);
    let named = if named_is_probe {
        probe_id.clone()
    } else if case.named_is_token_owner {
        s.pool[TOKEN_OWNER].clone()
    } else {
        s.pool[EXTRA_A].clone()
    };
    let counterparty = s.pool[EXTRA_B].clone();
    // balances
    s.token.mint(&named, &1000);
    s.token.mint(&counterparty, &1000);
    s.fund(&named, 1000);
    s.fund(&counterparty, 1000);
    // allowances: counterparty -> named (so that delegated spends by `named` are possible)
    let exp = env.ledger().sequence() + 500;
    if !case.without_grantor_allowance {
        s.token.approve(&counterparty, &named, &500, &exp);
    } else if case.grantor_allowance_expired {
        // approved until 5 ledgers from now; 6 ledgers pass (the storage entry itself is still alive)
        let soon = env.ledger().sequence() + 5;
        s.token.approve(&counterparty, &named, &500, &soon);
        advance_ledgers(&env, 6);
    } else if case.grantor_allowance_revoked != 0 {
        match case.grantor_allowance_revoked % 8 {
            6 | 7 => {
                // an "unlimited" approval (expiration far beyond any entry lifetime; a tree may refuse it), then revoked
                // or replaced by a small one that is used up; then enough ledgers pass for short-lived entries to lapse
                let _ = s.token.try_approve(&counterparty, &named, &500, &u32::MAX);
                advance_ledgers(&env, 3);
                let now = env.ledger().sequence();
                if case.grantor_allowance_revoked % 8 == 6 {
                    let _ = s.token.try_approve(&counterparty, &named, &0, &now);
                } else {
                    s.token.approve(&counterparty, &named, &2, &(now + 5));
                    s.token.transfer_from(&named, &counterparty, &named, &2);
                }
                advance_ledgers(&env, 40);
            }
            k @ 1..=3 => {
                s.token.approve(&counterparty, &named, &500, &exp);
                advance_ledgers(&env, 10);
                let now = env.ledger().sequence();
                let e = match k {
                    1 => 0,
                    2 => now - 1,
                    _ => now + 100,
                };
                s.token.approve(&counterparty, &named, &0, &e);
            }
            0 => {
                // exhausted by a pull of the holder's whole balance (allowance = balance = 1000); the holder is funded
                // again afterwards, the approval is still within its lifetime
                s.token.approve(&counterparty, &named, &1000, &exp);
                advance_ledgers(&env, 7);
                s.token.transfer_from(&named, &counterparty, &named, &1000);
                s.token.mint(&counterparty, &1000);
            }
            k => {
                // exhausted: the whole allowance was spent by its rightful spender - on the very ledger it expires at
                // (4), or well before (5)
                let e = env.ledger().sequence() + 20;
                s.token.approve(&counterparty, &named, &500, &e);
                advance_ledgers(&env, if k == 4 { 20 } else { 7 });
                s.token.transfer_from(&named, &counterparty, &named, &500);
            }
        }
    }
    if case.with_allowance_for_counterparty {
        // and the other way round: the counterparty holds an allowance from `named`
        s.token.approve(&named, &counterparty, &500, &exp);
        TokenClient::new(&env, &s.asset).approve(&named, &counterparty, &500, &exp);
    }
    s.token.add_minter(&named);
    s.ops.add_operator(&named);
    // the contracts themselves hold funds too (so that "acting for itself" would have something to move)
    for a in [&s.token.address, &s.gas.address, &s.gw.address, &s.its.address, &s.ops.address, &example_id] {
        s.token.mint(a, &1000);
        s.fund(a, 1000);
    }
    s.token.add_minter(&s.token.address);
    s.ops.add_operator(&s.ops.address);
    // ITS: trusted chain, a token deployed by `named`, a registered canonical asset
    s.its.set_trusted_chain(&sstr(&env, "ethereum"));
    let ds = s.its.interchain_token_deploy_salt(&named, &BytesN::from_array(&env, &ITS_SALT));
    let zero = <Address as axelar_soroban_std::address::AddressExt>::zero(&env);
    let id = s.its.interchain_token_id(&zero, &ds).to_array();
    inject_native_token(&env, &s.its.address, &id);
    let md = TokenMetadata { decimal: 7, name: sstr(&env, "Its"), symbol: sstr(&env, "ITS") };
    s.its.deploy_interchain_token(&named, &BytesN::from_array(&env, &ITS_SALT), &md, &1000, &None);
    let its_token = s.its.token_address(&BytesN::from_array(&env, &id));
    // address the next deployment (Ep::ItsDeploy) will use
    let ds2 = s.its.interchain_token_deploy_salt(&named, &BytesN::from_array(&env, &NEW_SALT));
    let id2 = s.its.interchain_token_id(&zero, &ds2).to_array();
    inject_native_token(&env, &s.its.address, &id2);
    let asset2 = env.register_stellar_asset_contract_v2(s.pool[STRANGER].clone()).address();
    soroban_sdk::token::StellarAssetClient::new(&env, &asset2).mint(&named, &1000);
    s.its.register_canonical_token(&asset2);
    // (the service holds some of it, as it would after other users' outbound transfers)
    soroban_sdk::token::StellarAssetClient::new(&env, &asset2).mint(&s.its.address, &1000);
    // a message approved for `named` as destination
    let m = Message {
        source_chain: sstr(&env, "ethereum"),
        message_id: sstr(&env, "m-1"),
        source_address: sstr(&env, "0xsrc"),
        contract_address: named.clone(),
        payload_hash: BytesN::from_array(&env, &keccak256(b"payload")),
    };
    let dh = approve_data_hash(&[message_sv(&env, &m)]);
    let proof = s.set.proof(&env, &digest(&s.domain, &s.set.hash(), &dh), s.set.full_mask());
    s.gw.approve_messages(&SVec::from_array(&env, [m]), &proof);
    if case.windows_open {
        env.mock_all_auths_allowing_non_root_auth();
        let empty = BytesN::from_array(&env, &empty_wasm_hash());
        s.gw.upgrade(&empty);
        s.gas.upgrade(&empty);
        s.ops.upgrade(&empty);
        s.its.upgrade(&empty);
        s.token.upgrade(&empty);
    }
    let owner_of_called = match case.ep {
        Ep::TokApprove | Ep::TokTransfer | Ep::TokTransferFrom | Ep::TokBurn | Ep::TokBurnFrom | Ep::TokMintFrom => s.pool[TOKEN_OWNER].clone(),
        Ep::GasPay | Ep::GasAdd | Ep::ExampleSend => s.pool[GAS_OWNER].clone(),
        Ep::GwCallContract | Ep::GwValidateMessage => s.pool[GW_OWNER].clone(),
        Ep::OpsExecute => s.pool[OPS_OWNER].clone(),
        _ => s.pool[ITS_OWNER].clone(),
    };
    // (only where the named address is more than the payer - sender of a transfer, deployer, sender of a call: where it is
    // only the payer, paying in a token without value debits nobody, which the statement does not forbid)
    let lax = case.lax_gas_token && matches!(case.ep, Ep::ItsTransfer | Ep::ItsTransferCanonical | Ep::ItsDeployRemote | Ep::ExampleSend);
    let gas_token = if lax { env.register(crate::probes::LaxToken, ()) } else { s.asset.clone() };
    W { s, named, counterparty, probe, target, example, its_token, its_token_id: id, asset2, owner_of_called, gas_token, recipient_is_holder: case.recipient_is_holder }
}

/// (contract, function, args) of the studied call; `alt` = second argument list
fn invocation(w: &W, ep: Ep, amount: i128, alt: bool) -> (Address, &'static str, SVec<Val>) {
    invocation_with(w, ep, amount, alt, w.named.clone(), w.counterparty.clone())
}

fn called_contract(w: &W, ep: Ep) -> Address {
    invocation(w, ep, 1, false).0
}

fn invocation_with(w: &W, ep: Ep, amount: i128, alt: bool, n: Address, c: Address) -> (Address, &'static str, SVec<Val>) {
    let env = &w.s.env;
    let s = &w.s;
    let a: i128 = if alt { amount + 1 } else { amount };
    let exp = env.ledger().sequence() + 100;
    let gas = Token { address: w.gas_token.clone(), amount: a };
    let v = |x: SVec<Val>| x;
    match ep {
        Ep::TokApprove => (s.token.address.clone(), "approve", v((n, c, a, exp).into_val(env))),
        Ep::TokTransfer => (s.token.address.clone(), "transfer", v((n, c, a).into_val(env))),
        Ep::TokTransferFrom => {
            let to = if w.recipient_is_holder { c.clone() } else { s.pool[STRANGER].clone() };
            (s.token.address.clone(), "transfer_from", v((n, c, to, a).into_val(env)))
        }
        Ep::TokBurn => (s.token.address.clone(), "burn", v((n, a).into_val(env))),
        Ep::TokBurnFrom => (s.token.address.clone(), "burn_from", v((n, c, a).into_val(env))),
        Ep::TokMintFrom => (s.token.address.clone(), "mint_from", v((n, c, a).into_val(env))),
        Ep::GasPay => (
            s.gas.address.clone(),
            "pay_gas",
            v((c, sstr(env, "ethereum"), sstr(env, "0xdest"), Bytes::from_slice(env, b"payload"), n, gas, Bytes::new(env)).into_val(env)),
        ),
        Ep::GasAdd => (s.gas.address.clone(), "add_gas", v((c, sstr(env, "msg-1"), n, gas).into_val(env))),
        Ep::GwCallContract => (
            s.gw.address.clone(),
            "call_contract",
            v((n, sstr(env, "ethereum"), sstr(env, "0xdest"), Bytes::from_slice(env, if alt { b"other" } else { b"payload" })).into_val(env)),
        ),
        Ep::GwValidateMessage => (
            s.gw.address.clone(),
            "validate_message",
            v((n, sstr(env, "ethereum"), sstr(env, if alt { "m-2" } else { "m-1" }), sstr(env, "0xsrc"), BytesN::from_array(env, &keccak256(b"payload"))).into_val(env)),
        ),
        Ep::ItsDeploy => {
            let md = TokenMetadata { decimal: 7, name: sstr(env, if alt { "Other" } else { "New" }), symbol: sstr(env, "NEW") };
            // for odd amounts the deployment appoints the counterparty as minter: being appointed gives no say over whose name
            // the token is deployed under
            let minter: Option<Address> = if amount % 2 == 1 { Some(c.clone()) } else { None };
            (s.its.address.clone(), "deploy_interchain_token", v((n, BytesN::from_array(env, &NEW_SALT), md, 0i128, minter).into_val(env)))
        }
        Ep::ItsDeployRemote => (s.its.address.clone(), "deploy_remote_interchain_token", v((n, BytesN::from_array(env, &ITS_SALT), sstr(env, "ethereum"), gas).into_val(env))),
        Ep::ItsTransfer => (
            s.its.address.clone(),
            "interchain_transfer",
            v((n, BytesN::from_array(env, &w.its_token_id), sstr(env, "ethereum"), Bytes::from_slice(env, b"dest"), a, None::<Bytes>, Token { address: w.gas_token.clone(), amount: 1 }).into_val(env)),
        ),
        Ep::ItsTransferCanonical => {
            let cid = s.its.register_canonical_token_id_of(&w.asset2);
            (
                s.its.address.clone(),
                "interchain_transfer",
                v((n, cid, sstr(env, "ethereum"), Bytes::from_slice(env, b"dest"), a, None::<Bytes>, Token { address: w.gas_token.clone(), amount: 1 }).into_val(env)),
            )
        }
        Ep::ItsDeployRemoteCanonical => (s.its.address.clone(), "deploy_remote_canonical_token", v((w.asset2.clone(), sstr(env, "ethereum"), n, gas).into_val(env))),
        Ep::OpsExecute => {
            let args: SVec<Val> = SVec::from_array(env, [(a as u32).into_val(env)]);
            (s.ops.address.clone(), "execute", v((n, w.target.clone(), Symbol::new(env, "echo1"), args).into_val(env)))
        }
        Ep::ExampleSend => (w.example.address.clone(), "send", v((n, sstr(env, "ethereum"), sstr(env, "0xdest"), Bytes::from_slice(env, b"hello"), gas).into_val(env))),
    }
}

trait CanonicalId {
    fn register_canonical_token_id_of(&self, asset: &Address) -> BytesN<32>;
}
impl<'a> CanonicalId for interchain_token_service::InterchainTokenServiceClient<'a> {
    fn register_canonical_token_id_of(&self, asset: &Address) -> BytesN<32> {
        let zero = <Address as axelar_soroban_std::address::AddressExt>::zero(&self.env);
        self.interchain_token_id(&zero, &self.canonical_token_deploy_salt(asset))
    }
}

/// the same value, changed a little (None: nothing sensible to change)
fn nudge(v: &soroban_sdk::xdr::ScVal, named: &soroban_sdk::xdr::ScAddress, other: &soroban_sdk::xdr::ScAddress) -> Option<soroban_sdk::xdr::ScVal> {
    use soroban_sdk::xdr::{Int128Parts, ScBytes, ScMap, ScMapEntry, ScString, ScVal, ScVec};
    Some(match v {
        ScVal::I128(p) => {
            let x = ((p.hi as i128) << 64 | p.lo as i128) + 1;
            ScVal::I128(Int128Parts { hi: (x >> 64) as i64, lo: x as u64 })
        }
        ScVal::U32(x) => ScVal::U32(x.wrapping_add(1)),
        ScVal::U64(x) => ScVal::U64(x.wrapping_add(1)),
        ScVal::String(x) => {
            let mut b = x.0.to_vec();
            b.push(b'x');
            ScVal::String(ScString(b.try_into().ok()?))
        }
        ScVal::Bytes(x) => {
            let mut b = x.0.to_vec();
            if b.len() == 32 {
                b[31] ^= 1;
            } else {
                b.push(1);
            }
            ScVal::Bytes(ScBytes(b.try_into().ok()?))
        }
        ScVal::Address(a) if a != named && a != other => ScVal::Address(other.clone()),
        ScVal::Map(Some(m)) => {
            // (a struct: change its last field that can be changed - the amount of a token argument)
            let mut entries: Vec<ScMapEntry> = m.0.to_vec();
            let k = (0..entries.len()).rev().find(|i| !matches!(entries[*i].val, ScVal::Address(_)) && nudge(&entries[*i].val, named, other).is_some())?;
            entries[k].val = nudge(&entries[k].val, named, other)?;
            ScVal::Map(Some(ScMap(entries.try_into().ok()?)))
        }
        ScVal::Vec(Some(x)) if !x.0.is_empty() => {
            let mut items: Vec<ScVal> = x.0.to_vec();
            items[0] = nudge(&items[0], named, other)?;
            ScVal::Vec(Some(ScVec(items.try_into().ok()?)))
        }
        _ => return None,
    })
}

/// the invocation with its k-th argument nudged (None: no such argument, or nothing to change about it)
fn nudged_invocation(w: &W, inv: &(Address, &'static str, SVec<Val>), k: u8) -> Option<(Address, &'static str, SVec<Val>)> {
    use soroban_sdk::xdr::{ScAddress, ScVal};
    use soroban_sdk::TryFromVal;
    let env = &w.s.env;
    let k = k as u32;
    if k >= inv.2.len() {
        return None;
    }
    let named = ScAddress::try_from(&w.named).ok()?;
    let other = ScAddress::try_from(&w.s.pool[EXTRA_B]).ok()?;
    let old = ScVal::try_from_val(env, &inv.2.get(k).unwrap()).ok()?;
    let new = nudge(&old, &named, &other)?;
    let mut args = inv.2.clone();
    args.set(k, Val::try_from_val(env, &new).ok()?);
    Some((inv.0.clone(), inv.1, args))
}

fn invoke_ok(w: &W, inv: &(Address, &'static str, SVec<Val>)) -> bool {
    let env = &w.s.env;
    matches!(env.try_invoke_contract::<Val, soroban_sdk::Error>(&inv.0, &Symbol::new(env, inv.1), inv.2.clone()), Ok(Ok(_)))
}

fn call_direct(w: &W, inv: &(Address, &'static str, SVec<Val>)) -> bool {
    let env = &w.s.env;
    let r = env.try_invoke_contract::<Val, soroban_sdk::Error>(&inv.0, &Symbol::new(env, inv.1), inv.2.clone());
    match r {
        Ok(Ok(v)) => {
            // validate_message signals refusal by returning false
            if inv.1 == "validate_message" {
                use soroban_sdk::TryFromVal;
                bool::try_from_val(env, &v).unwrap_or(false)
            } else {
                true
            }
        }
        _ => false,
    }
}

fn call_via_probe(w: &W, inv: &(Address, &'static str, SVec<Val>)) -> bool {
    let env = &w.s.env;
    match w.probe.try_relay(&inv.0, &Symbol::new(env, inv.1), &inv.2) {
        Ok(Ok(v)) => {
            if inv.1 == "validate_message" {
                use soroban_sdk::TryFromVal;
                bool::try_from_val(env, &v).unwrap_or(false)
            } else {
                true
            }
        }
        _ => false,
    }
}

impl Property for C07 {
    type Case = Case;
    fn id(&self) -> &'static str {
        "C07"
    }
    fn rule(&self) -> &'static str {
        "every case = (one of 17 entry points that debit / burn / pay gas from / send as / consume for / deploy under the name of / execute as an operator a named address: token approve, transfer, transfer_from, burn, burn_from, mint_from; gas pay_gas, add_gas; gateway call_contract, validate_message; ITS deploy_interchain_token, deploy_remote_interchain_token, interchain_transfer (burn and lock paths), deploy_remote_canonical_token; operators execute; example send) x (one of 10 authoriser classes: the named address, its counterparty (recipient / allowance grantor / sender), the owner of the called contract, a stranger, nobody, the named address for other arguments, a contract naming itself without entries, a contract naming another address, every address argument aliased to the called contract itself or to the named address with nobody signing) x world state (with / without an allowance held by the counterparty; with / without / with an expired grantor's allowance for delegated spends (or one revoked by approving 0, used up by its spender - also by one pull of the holder's whole balance, the holder being funded again afterwards -, or an 'unlimited' one revoked / replaced); named address = an ordinary account or the token's owner/minter; amount 1..40 or its negative; ordinary state or every contract upgraded-but-not-migrated). The full 17x10 matrix is enumerated in every run for both allowance states; proptest samples amounts. Engine: the authorisation trees (incl. nested burn / gas-payment nodes) are recorded in a twin world with all auths mocked and replayed in a fresh identical world signed by exactly one principal. Oracle: success iff the named address authorised (or is the directly calling contract); every refusal leaves the ledger snapshot identical. non-trivial = authoriser is not simply the named address; distinct by Debug hash. A share of the random cases is an entry-point sweep (construction as described for C13: the exported functions of all shipped contracts read from the sources of the tree under test, a complete deployed system, pooled arguments - including well-formed signer sets nobody installed and proofs properly signed by the gateway's own signer set over digests that belong to no command -, every require_auth satisfied by the host's mock and recorded; entry points absent from the pinned inventory get 300 deterministic cases each); oracle: an account's balance of any of three tokens decreases only if that account is among the recorded signers or had granted an allowance to a recorded signer; non-trivial = the call succeeded Since rounds 12-13: principal classes 'the named address signed a call differing in exactly the k-th argument' (k = 0..6; skipped where the neighbouring call is not a possible one); and a state in which the gas token is one anybody could deploy (its transfer asks nobody), for the entry points where the named address is more than the payer, with the token service holding some of the canonical asset."
    }
    fn fixed_is_exhaustive(&self) -> Option<&'static str> {
        Some("entry-point x authoriser matrix (17 x 10) x {with,without} counterparty allowance enumerated completely; amounts sampled")
    }
    fn cases(&self, tier: Tier) -> u64 {
        tier.pick(8000, 60000)
    }
    fn strategy(&self, _tier: Tier) -> BoxedStrategy<Case> {
        let direct = (prop::sample::select(EPS.to_vec()), prop::sample::select(PRINCIPALS.to_vec()), any::<bool>(), 1u8..40, prop_oneof![3 => Just(false), 1 => Just(true)], prop_oneof![3 => Just(false), 1 => Just(true)])
            .prop_map(|(ep, principal, with_allowance_for_counterparty, amount, without_grantor_allowance, named_is_token_owner)| Case {
                ep,
                principal,
                with_allowance_for_counterparty,
                amount,
                without_grantor_allowance,
                named_is_token_owner,
                // half of the "no usable allowance" worlds are "approved, but expired"
                grantor_allowance_expired: without_grantor_allowance && amount % 2 == 0,
                windows_open: amount % 5 == 0,
                negative_amount: amount % 7 == 0,
                sweep: None,
                grantor_allowance_revoked: if without_grantor_allowance && amount % 2 == 1 { 1 + amount / 2 % 8 } else { 0 },
                lax_gas_token: amount % 3 == 1,
                recipient_is_holder: amount % 4 == 2,
            })
            .boxed();
        match crate::sweep::strategy(crate::sweep::Rule::Spend) {
            Some(sw) => prop_oneof![3 => direct, 1 => sw.prop_map(|s| Case { sweep: Some(s), ..blank() })].boxed(),
            None => direct,
        }
    }
    fn fixed_cases(&self, _tier: Tier) -> Vec<Case> {
        let mut v: Vec<Case> = crate::sweep::fixed_cases(300).into_iter().map(|s| Case { sweep: Some(s), ..blank() }).collect();
        for ep in EPS {
            for p in PRINCIPALS {
                for al in [false, true] {
                    v.push(Case { ep, principal: p, with_allowance_for_counterparty: al, amount: 3, without_grantor_allowance: false, named_is_token_owner: false, grantor_allowance_expired: false , windows_open: false, negative_amount: false, sweep: None, grantor_allowance_revoked: 0, lax_gas_token: false, recipient_is_holder: false });
                }
                if matches!(p, Principal::Nobody | Principal::Stranger | Principal::AllAddressesAliasCalledContract | Principal::ContractNamingOther) {
                    v.push(Case { ep, principal: p, with_allowance_for_counterparty: false, amount: 3, without_grantor_allowance: false, named_is_token_owner: false, grantor_allowance_expired: false, windows_open: true, negative_amount: false, sweep: None, grantor_allowance_revoked: 0, lax_gas_token: false, recipient_is_holder: false });
                }
                if matches!(p, Principal::Named | Principal::Counterparty) && ep.has_amount() {
                    v.push(Case { ep, principal: p, with_allowance_for_counterparty: true, amount: 3, without_grantor_allowance: false, named_is_token_owner: false, grantor_allowance_expired: false, windows_open: false, negative_amount: true, sweep: None, grantor_allowance_revoked: 0, lax_gas_token: false, recipient_is_holder: false });
                    v.push(Case { ep, principal: p, with_allowance_for_counterparty: true, amount: 3, without_grantor_allowance: false, named_is_token_owner: true, grantor_allowance_expired: false, windows_open: false, negative_amount: true, sweep: None, grantor_allowance_revoked: 0, lax_gas_token: false, recipient_is_holder: false });
                }
                if matches!(ep, Ep::ItsDeployRemote | Ep::ItsTransfer | Ep::ItsTransferCanonical | Ep::ExampleSend) {
                    v.push(Case { ep, principal: p, with_allowance_for_counterparty: false, amount: 3, without_grantor_allowance: false, named_is_token_owner: false, grantor_allowance_expired: false, windows_open: false, negative_amount: false, sweep: None, grantor_allowance_revoked: 0, lax_gas_token: true, recipient_is_holder: false });
                }
                // the named address is the token owner / a minter
                v.push(Case { ep, principal: p, with_allowance_for_counterparty: false, amount: 3, without_grantor_allowance: false, named_is_token_owner: true, grantor_allowance_expired: false , windows_open: false, negative_amount: false, sweep: None, grantor_allowance_revoked: 0, lax_gas_token: false, recipient_is_holder: false });
                if matches!(ep, Ep::TokTransferFrom | Ep::TokBurnFrom) {
                    // no allowance from the grantor: nobody's authorisation is enough
                    for owner in [false, true] {
                        for expired in [false, true] {
                            // amount 500 = the whole (expired) allowance; 3 = part of it
                            for amount in [3u8, 250] {
                                v.push(Case { ep, principal: p, with_allowance_for_counterparty: false, amount, without_grantor_allowance: true, named_is_token_owner: owner, grantor_allowance_expired: expired , windows_open: false, negative_amount: false, sweep: None, grantor_allowance_revoked: 0, lax_gas_token: false, recipient_is_holder: false });
                                if ep == Ep::TokTransferFrom {
                                    v.push(Case { ep, principal: p, with_allowance_for_counterparty: false, amount, without_grantor_allowance: true, named_is_token_owner: owner, grantor_allowance_expired: expired, windows_open: false, negative_amount: false, sweep: None, grantor_allowance_revoked: 0, lax_gas_token: false, recipient_is_holder: true });
                                }
                                if !expired {
                                    for r in 1..9u8 {
                                        v.push(Case { ep, principal: p, with_allowance_for_counterparty: false, amount, without_grantor_allowance: true, named_is_token_owner: owner, grantor_allowance_expired: false, windows_open: false, negative_amount: false, sweep: None, grantor_allowance_revoked: r, lax_gas_token: false, recipient_is_holder: false });
                                    }
                                }
                            }
                        }
                    }
                }
            }
        }
        v
    }

    fn run(&self, case: &Case, cx: &mut Cx) -> Result<(), String> {
        if let Some(sw) = &case.sweep {
            // "debits ... or consumes a message for an address": two invariants, alternating
            let rule = if sw.pick % 2 == 0 { crate::sweep::Rule::Spend } else { crate::sweep::Rule::Consume };
            return crate::sweep::run(sw, cx, rule);
        }
        let ep = case.ep;
        let amount: i128 = if case.amount == 250 { 500 } else { case.amount as i128 };
        cx.label(&format!("{:?}", case.principal));
        if case.principal != Principal::Named {
            cx.nontrivial();
        }
        if case.negative_amount && ep.has_amount() {
            // every balance that could be touched is watched through the full ledger snapshot: the call must fail
            cx.label("negative_amount");
            cx.nontrivial();
            let w = build(case, false);
            let env = &w.s.env;
            let inv = invocation(&w, ep, -amount, false);
            let signer: Option<Address> = match case.principal {
                Principal::Named | Principal::NamedOtherArgs | Principal::NamedOtherArg(_) => Some(w.named.clone()),
                Principal::Counterparty => Some(w.counterparty.clone()),
                Principal::ContractOwner => Some(w.owner_of_called.clone()),
                Principal::Stranger => Some(w.s.pool[STRANGER].clone()),
                _ => None,
            };
            match signer {
                // whoever signs, also with every authorisation mocked, a negative amount must be refused
                Some(_) => env.mock_all_auths_allowing_non_root_auth(),
                None => env.set_auths(&[]),
            }
            let snap0 = snapshot(env);
            let ev0 = events_len(env);
            cx.count("must_fail");
            ensure_p!(!call_direct(&w, &inv), "{:?}: accepted a negative amount ({}): somebody is debited or credited backwards without having authorised it", ep, -amount);
            ensure_p!(snapshot(env) == snap0 && events_len(env) == ev0, "{:?}: refused call changed state", ep);
            return Ok(());
        }
        match case.principal {
            Principal::ContractNamingItself => {
                if !ep.single_level() {
                    // nested authorisation (burn / gas payment below the entry point) needs explicit
                    // entries even for a calling contract: not this class's question
                    cx.count("skipped_nested_auth_for_contract_caller");
                    return Ok(());
                }
                let w = build(case, true);
                let env = &w.s.env;
                let inv = invocation(&w, ep, amount, false);
                env.set_auths(&[]);
                if case.without_grantor_allowance && matches!(ep, Ep::TokTransferFrom | Ep::TokBurnFrom) {
                    cx.count("must_fail");
                    cx.label("delegated_without_allowance");
                if case.grantor_allowance_revoked != 0 && !case.grantor_allowance_expired {
                    cx.label(match case.grantor_allowance_revoked % 8 { 1..=3 => "allowance_revoked_by_approving_zero", 6 | 7 => "unlimited_allowance_revoked_or_replaced_then_ledgers_pass", 0 => "allowance_exhausted_by_a_whole_balance_pull_then_holder_refunded", _ => "allowance_exhausted_by_its_spender" });
                }
                    let snap0 = snapshot(env);
                    ensure_p!(!call_via_probe(&w, &inv), "{:?}: a delegated spend by a contract succeeded although the holder has no usable allowance (never granted, expired, or revoked)", ep);
                    ensure_p!(snapshot(env) == snap0, "{:?}: refused call changed state", ep);
                    return Ok(());
                }
                cx.count("must_succeed");
                ensure_p!(call_via_probe(&w, &inv), "{:?}: a contract calling for itself was refused", ep);
                Ok(())
            }
            Principal::AllAddressesAliasCalledContract | Principal::AllAddressesAliasNamedNobodySigns => {
                let w = build(case, false);
                let env = &w.s.env;
                let who = if case.principal == Principal::AllAddressesAliasCalledContract { called_contract(&w, ep) } else { w.named.clone() };
                let inv = invocation_with(&w, ep, amount, false, who.clone(), who.clone());
                env.set_auths(&[]);
                let snap0 = snapshot(env);
                let ev0 = events_len(env);
                cx.count("must_fail");
                ensure_p!(!call_direct(&w, &inv), "{:?}: succeeded with every address argument set to {} and nobody authorising", ep, if case.principal == Principal::AllAddressesAliasCalledContract { "the called contract's own address" } else { "the named address" });
                ensure_p!(snapshot(env) == snap0 && events_len(env) == ev0, "{:?}: refused call changed state", ep);
                Ok(())
            }
            Principal::ContractNamingOther => {
                let w = build(case, false);
                let env = &w.s.env;
                let inv = invocation(&w, ep, amount, false);
                env.set_auths(&[]);
                let snap0 = snapshot(env);
                let ev0 = events_len(env);
                cx.count("must_fail");
                ensure_p!(!call_via_probe(&w, &inv), "{:?}: a contract acted for another address without that address's authorisation", ep);
                ensure_p!(snapshot(env) == snap0 && events_len(env) == ev0, "{:?}: refused call changed state", ep);
                Ok(())
            }
            _ if case.without_grantor_allowance && matches!(ep, Ep::TokTransferFrom | Ep::TokBurnFrom) => {
                // The grantor never approved the spender: the holder's consent is missing, so the
                // delegated spend must fail whoever signs (the call cannot be recorded: it fails).
                cx.label("delegated_without_allowance");
                if case.grantor_allowance_revoked != 0 && !case.grantor_allowance_expired {
                    cx.label(match case.grantor_allowance_revoked % 8 { 1..=3 => "allowance_revoked_by_approving_zero", 6 | 7 => "unlimited_allowance_revoked_or_replaced_then_ledgers_pass", 0 => "allowance_exhausted_by_a_whole_balance_pull_then_holder_refunded", _ => "allowance_exhausted_by_its_spender" });
                }
                let w = build(case, false);
                let env = &w.s.env;
                let inv = invocation(&w, ep, amount, false);
                let principal: Option<Address> = match case.principal {
                    Principal::Named | Principal::NamedOtherArgs | Principal::NamedOtherArg(_) => Some(w.named.clone()),
                    Principal::Counterparty => Some(w.counterparty.clone()),
                    Principal::ContractOwner => Some(w.owner_of_called.clone()),
                    Principal::Stranger => Some(w.s.pool[STRANGER].clone()),
                    _ => None,
                };
                let entries = match &principal {
                    Some(p) => vec![(p.clone(), auth::node(env, &inv.0, inv.1, &inv.2, vec![]))],
                    None => vec![],
                };
                auth::install(env, &entries);
                let snap0 = snapshot(env);
                let ev0 = events_len(env);
                cx.count("must_fail");
                ensure_p!(!call_direct(&w, &inv), "{:?}: a delegated spend succeeded although the holder has no usable allowance for the spender - never granted, or expired - (signed by {:?}, spender is token owner: {})", ep, case.principal, case.named_is_token_owner);
                ensure_p!(snapshot(env) == snap0 && events_len(env) == ev0, "{:?}: refused call changed state", ep);
                Ok(())
            }
            _ => {
                let one_arg: Option<u8> = match case.principal {
                    Principal::NamedOtherArg(k) => Some(k),
                    _ => None,
                };
                let other_args = case.principal == Principal::NamedOtherArgs || one_arg.is_some();
                // ---- twin world: record
                let tw = build(case, false);
                let tinv = match one_arg {
                    None => invocation(&tw, ep, amount, other_args),
                    Some(k) => match nudged_invocation(&tw, &invocation(&tw, ep, amount, false), k) {
                        Some(i) => i,
                        None => {
                            cx.count("no_such_argument_to_change");
                            return Ok(());
                        }
                    },
                };
                let (ok, recs) = auth::record(&tw.s.env, || invoke_ok(&tw, &tinv));
                if one_arg.is_some() && !ok {
                    // the neighbouring call is not a possible one (unknown chain, unknown token, no allowance from that holder ...)
                    cx.count("neighbouring_call_not_possible");
                    return Ok(());
                }
                if one_arg.is_some() {
                    cx.label(&format!("named_address_signed_a_call_differing_in_one_argument:{:?}", ep));
                }
                ensure_p!(ok, "{:?} failed although every authorisation was mocked and its preconditions hold", ep);
                let named_sc = soroban_sdk::xdr::ScAddress::try_from(&tw.named).unwrap();
                ensure_p!(
                    auth::authorisers(&recs).contains(&named_sc),
                    "{:?} did not require the authorisation of the address it acts for; it required {:?}",
                    ep,
                    auth::authorisers(&recs)
                );
                // ---- replay world
                let w = build(case, false);
                let env = &w.s.env;
                let inv = invocation(&w, ep, amount, false);
                let principal: Option<Address> = match case.principal {
                    Principal::Named | Principal::NamedOtherArgs | Principal::NamedOtherArg(_) => Some(w.named.clone()),
                    Principal::Counterparty => Some(w.counterparty.clone()),
                    Principal::ContractOwner => Some(w.owner_of_called.clone()),
                    Principal::Stranger => Some(w.s.pool[STRANGER].clone()),
                    _ => None,
                };
                let entries = match &principal {
                    Some(p) => auth::readdress(env, &recs, &w.named, p),
                    None => vec![],
                };
                auth::install(env, &entries);
                // decided by address, not by class: a class may coincide with the named address (e.g. the
                // named address is the owner of the called contract)
                let expect_ok = principal.as_ref() == Some(&w.named) && !other_args;
                let snap0 = snapshot(env);
                let ev0 = events_len(env);
                let ok = call_direct(&w, &inv);
                if expect_ok {
                    cx.count("must_succeed");
                    ensure_p!(ok, "{:?} refused although the named address authorised exactly this call (recorded trees: {})", ep, recs.len());
                } else {
                    cx.count("must_fail");
                    ensure_p!(!ok, "{:?} succeeded with authorisation from {:?} instead of the named address", ep, case.principal);
                    ensure_p!(snapshot(env) == snap0, "{:?}: refused call changed the ledger", ep);
                    ensure_p!(events_len(env) == ev0, "{:?}: refused call emitted events", ep);
                }
                let _ = &w.its_token;
                Ok(())
            }
        }
    }
}
