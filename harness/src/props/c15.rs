//! C15 — owner-only upgrades, one migration per upgrade, all-or-nothing Upgrader.
//! (A) exhaustive {upgrade,migrate} x {owner,former,stranger,nobody} sequences on six targets;
//! (B) Upgrader matrix over requested version x authorisation coverage x migration data.

use crate::auth;
use crate::engine::{Cx, Property, Tier};
use crate::ensure_p;
use crate::probes::{DerivedProbe, DummyLike, VerProbe, VerProbeClient};
use crate::sys::*;
use crate::world::*;
use axelar_soroban_std::interfaces::UpgradableClient;
use proptest::prelude::*;
#[allow(unused_imports)]
use crate::prop_oneof;
use serde::{Deserialize, Serialize};
use soroban_sdk::testutils::Address as _;
use soroban_sdk::xdr::{InvokeContractArgs, ScAddress, ScVal, SorobanAuthorizedFunction, SorobanAuthorizedInvocation};
use soroban_sdk::{Address, BytesN, Env, IntoVal, Symbol, TryFromVal, Val, Vec as SVec};
use upgrader::{Upgrader, UpgraderClient};

pub struct C15;

const DUMMY_WASM: &[u8] = include_bytes!("/repo/contracts/upgrader/tests/testdata/dummy.wasm");
const TARGET_NAMES: [&str; 6] = ["gateway", "gas-service", "operators", "its", "token", "derive-macro probe"];

#[derive(Clone, Copy, Debug, Serialize, Deserialize, PartialEq, Eq)]
pub enum Who {
    Owner,
    Former,
    Stranger,
    Nobody,
}
const WHOS: [Who; 4] = [Who::Owner, Who::Former, Who::Stranger, Who::Nobody];

#[derive(Clone, Copy, Debug, Serialize, Deserialize, PartialEq, Eq)]
pub enum Kind {
    Upgrade,
    Migrate,
    /// transfer_ownership to "the other" of two fixed addresses (so ownership can change while a window is open)
    Transfer,
}
const KINDS: [Kind; 3] = [Kind::Upgrade, Kind::Migrate, Kind::Transfer];

#[derive(Clone, Copy, Debug, Serialize, Deserialize, PartialEq, Eq)]
pub struct Act {
    pub kind: Kind,
    pub who: Who,
}

#[derive(Clone, Copy, Debug, Serialize, Deserialize, PartialEq, Eq)]
pub enum UT {
    VerProbe,
    Dummy,
    Prod(u8),
}

#[derive(Clone, Copy, Debug, Serialize, Deserialize, PartialEq, Eq)]
pub enum Req {
    Same,
    Next,
    Wrong,
    /// the next version is the current one with a suffix (current is a strict prefix of it)
    NextExtendsCurrent,
    /// requested is a strict prefix of what the new code reports
    PrefixOfReported,
    /// the empty string is requested (no version is "the empty one": the new code reports a real version)
    Empty,
}

#[derive(Clone, Copy, Debug, Serialize, Deserialize, PartialEq, Eq)]
pub enum AuthCov {
    Both,
    UpgradeOnly,
    MigrateOnly,
    None,
    BothByNonOwner,
    BothByFormerOwner,
}
const AUTHS: [AuthCov; 6] = [AuthCov::Both, AuthCov::UpgradeOnly, AuthCov::MigrateOnly, AuthCov::None, AuthCov::BothByNonOwner, AuthCov::BothByFormerOwner];

#[derive(Clone, Copy, Debug, Serialize, Deserialize, PartialEq, Eq)]
pub enum Data {
    WellTyped,
    IllTyped,
    TooManyArgs,
    /// VerProbe only: migration itself fails
    Fails,
    /// VerProbe only: the new code reports another version than requested
    ReportsOtherVersion,
    /// VerProbe only: the new code keeps reporting the old version
    ReportsOldVersion,
    /// VerProbe only: the new code migrates fine but its `version` entry point fails (true) / returns a number instead
    /// of a string (false): the requested version cannot be confirmed
    VersionUnreadableAfterwards(bool),
}

#[derive(Clone, Debug, Serialize, Deserialize)]
pub enum Case {
    Seq { target: u8, transfer_first: bool, actions: Vec<Act> },
    Upg {
        target: UT,
        req: Req,
        auth: AuthCov,
        data: Data,
        transfer_first: bool,
        /// (probe target) the target already went through one Upgrader run and, after it, one upgrade made by its owner
        /// directly: what the Upgrader may remember from its own run is out of date
        #[serde(default)]
        earlier_runs: bool,
    },
    /// entry-point sweep (see sweep.rs)
    Sweep(crate::sweep::SweepCase),
}

fn act() -> impl Strategy<Value = Act> {
    // (long patterns of owner actions - upgrade, migrate, upgrade, migrate, migrate - matter: half of the acts are the owner's)
    (prop::sample::select(KINDS.to_vec()), prop_oneof![3 => Just(Who::Owner), 3 => prop::sample::select(WHOS.to_vec())]).prop_map(|(kind, who)| Act { kind, who })
}

fn all_seqs(max_len: usize) -> Vec<Vec<Act>> {
    let acts: Vec<Act> = KINDS.iter().flat_map(|k| WHOS.iter().map(move |w| Act { kind: *k, who: *w })).collect();
    let mut out: Vec<Vec<Act>> = vec![vec![]];
    let mut frontier: Vec<Vec<Act>> = vec![vec![]];
    for _ in 0..max_len {
        let mut next = vec![];
        for s in &frontier {
            for a in &acts {
                let mut t = s.clone();
                t.push(*a);
                next.push(t);
            }
        }
        out.extend(next.iter().cloned());
        frontier = next;
    }
    out.remove(0);
    out
}

const PROD_DIRS: [&str; 5] = ["axelar-gateway", "axelar-gas-service", "axelar-operators", "interchain-token-service", "interchain-token"];

/// well-typed migration data for a shipped contract: `()` at the pinned commit; whatever type the tree under test
/// declares (`#[migratable(with_type = T)]`) otherwise
fn prod_migration_data(env: &Env, k: u8) -> Val {
    let ty = crate::sweep::migration_type(PROD_DIRS[k as usize % 5]);
    hinted_value(env, &ty, &MigHints::default()).unwrap_or_else(|| ().into_val(env))
}

fn migrating_flag(env: &Env, target: &Address) -> bool {
    let key: SVec<Symbol> = SVec::from_array(env, [Symbol::new(env, "Interfaces_Migrating")]);
    env.as_contract(target, || env.storage().instance().has(&key))
}

fn try_migrate(env: &Env, target: &Address, args: SVec<Val>) -> bool {
    matches!(env.try_invoke_contract::<Val, soroban_sdk::Error>(target, &Symbol::new(env, "migrate"), args), Ok(Ok(_)))
}

fn node(env: &Env, contract: &Address, func: &str, args: &SVec<Val>, subs: Vec<SorobanAuthorizedInvocation>) -> SorobanAuthorizedInvocation {
    let a: Vec<ScVal> = args.iter().map(|v| ScVal::try_from_val(env, &v).unwrap()).collect();
    SorobanAuthorizedInvocation {
        function: SorobanAuthorizedFunction::ContractFn(InvokeContractArgs {
            contract_address: ScAddress::try_from(contract).unwrap(),
            function_name: func.try_into().unwrap(),
            args: a.try_into().unwrap(),
        }),
        sub_invocations: subs.try_into().unwrap(),
    }
}

struct SeqWorld<'a> {
    s: Sys<'a>,
    target: Address,
    owner: Address,
    former: Address,
    stranger: Address,
    /// the two addresses ownership alternates between when a sequence transfers it
    alt: [Address; 2],
}

fn seq_world<'a>(target: u8, transfer_first: bool) -> SeqWorld<'a> {
    let s = build_sys();
    let env = s.env.clone();
    let (target_addr, owner0) = match target % 6 {
        0 => (s.gw.address.clone(), s.pool[GW_OWNER].clone()),
        1 => (s.gas.address.clone(), s.pool[GAS_OWNER].clone()),
        2 => (s.ops.address.clone(), s.pool[OPS_OWNER].clone()),
        3 => (s.its.address.clone(), s.pool[ITS_OWNER].clone()),
        4 => (s.token.address.clone(), s.pool[TOKEN_OWNER].clone()),
        _ => {
            let o = s.pool[EXTRA_B].clone();
            (env.register(DerivedProbe, (o.clone(),)), o)
        }
    };
    let stranger = s.pool[STRANGER].clone();
    let (owner, former) = if transfer_first {
        env.mock_all_auths();
        let new_owner = s.pool[EXTRA_A].clone();
        axelar_soroban_std::interfaces::OwnableClient::new(&env, &target_addr).transfer_ownership(&new_owner);
        (new_owner, owner0)
    } else {
        // no former owner exists: the role is played by a second stranger
        (owner0, Address::generate(&env))
    };
    let alt = [s.pool[EXTRA_A].clone(), s.pool[GAS_COLLECTOR].clone()];
    SeqWorld { s, target: target_addr, owner, former, stranger, alt }
}

impl Property for C15 {
    type Case = Case;
    fn id(&self) -> &'static str {
        "C15"
    }
    fn rule(&self) -> &'static str {
        "(A) for each of the five production contracts and a harness contract built with the repo's derive macros: ALL sequences over {upgrade(empty-Wasm hash, keeps native dispatch of the current source), migrate, transfer_ownership} x {owner, former owner, stranger, nobody} up to length 3 (quick) / 4 (thorough), with and without a preceding ownership transfer, enumerated as fixed cases; proptest adds random sequences up to length 8. Oracle: migration-window model (upgrade and transfer need the current owner, upgrade opens the window; migrate needs the *current* owner (also when ownership changed while the window was open) and an open window, closes it, emits upgraded(version)); everything else fails with the ledger snapshot identical; the window flag is also read directly as a recorded cross-check (never a verdict). (B) Upgrader: ALL combinations of target (configurable harness target; native dummy -> committed dummy.wasm; the five production contracts) x requested version (same / next / wrong / current+suffix / strict prefix of what the new code reports) x authorisation coverage (both steps, one step only, none, both by a stranger, both by the former owner) x migration data (well-typed, ill-typed, too many arguments, failing migration, new code reporting another / the old version), enumerated as fixed cases, with and without a preceding ownership transfer. Oracle: success iff versions differ beforehand, the current owner authorised both steps, migrate accepts the data, and the version afterwards equals the request (then version/data are the new ones); otherwise failure with the target's ledger snapshot identical (code, version, data, flag). non-trivial = any case but a lone owner upgrade; distinct by Debug hash. A share of the random cases is an entry-point sweep (the exported functions of all shipped contracts are read from the sources of the tree under test; entry points absent from the pinned inventory get 300 deterministic cases each and half of the random sweep cases): one entry point is called on a fully deployed system (gateway, gas service, operators, token service with a deployed token owned by the service, stand-alone token, upgrader, example app; some contracts optionally upgraded-but-not-migrated) with arguments from pools of principals / contracts / tokens / names / ids / boundary amounts, every require_auth satisfied by the host's mock and recorded; cases where the mock let a contract sign are discarded; oracle: a change of a contract's migration state (code replaced, or migration run) needs that contract's owner among the recorded signers (or to be the called contract) - in particular for a token whose owner is the token service no account's signature may suffice; non-trivial = the call succeeded Since rounds 12-13 the probe target's new code may migrate into a state in which `version` fails or returns a number, and the empty string may be requested as version: the Upgrader must refuse both."
    }
    fn fixed_is_exhaustive(&self) -> Option<&'static str> {
        Some("all {upgrade,migrate,transfer}x{owner,former,stranger,nobody} sequences to length 3 (quick) / 4 (thorough) on 6 targets x {with,without} ownership transfer; and the full Upgrader matrix")
    }
    fn cases(&self, tier: Tier) -> u64 {
        tier.pick(4000, 60000)
    }
    fn strategy(&self, _tier: Tier) -> BoxedStrategy<Case> {
        let seq = (0u8..6, any::<bool>(), proptest::collection::vec(act(), 4..9)).prop_map(|(target, transfer_first, actions)| Case::Seq { target, transfer_first, actions }).boxed();
        match crate::sweep::strategy(crate::sweep::Rule::Code) {
            Some(sw) => prop_oneof![1 => seq, 1 => sw.prop_map(Case::Sweep)].boxed(),
            None => seq,
        }
    }
    fn fixed_cases(&self, tier: Tier) -> Vec<Case> {
        let mut v: Vec<Case> = crate::sweep::fixed_cases(300).into_iter().map(Case::Sweep).collect();
        let seqs = all_seqs(tier.pick(3, 4));
        for target in 0..6u8 {
            for transfer_first in [false, true] {
                for s in &seqs {
                    v.push(Case::Seq { target, transfer_first, actions: s.clone() });
                }
            }
        }
        for transfer_first in [false, true] {
            for auth in AUTHS {
                for req in [Req::Same, Req::Next, Req::Wrong, Req::NextExtendsCurrent, Req::PrefixOfReported, Req::Empty] {
                    for data in [Data::WellTyped, Data::IllTyped, Data::TooManyArgs, Data::Fails, Data::ReportsOtherVersion, Data::ReportsOldVersion, Data::VersionUnreadableAfterwards(true), Data::VersionUnreadableAfterwards(false)] {
                        v.push(Case::Upg { target: UT::VerProbe, req, auth, data, transfer_first, earlier_runs: false });
                        v.push(Case::Upg { target: UT::VerProbe, req, auth, data, transfer_first, earlier_runs: true });
                    }
                    for data in [Data::WellTyped, Data::IllTyped, Data::TooManyArgs] {
                        v.push(Case::Upg { target: UT::Dummy, req, auth, data, transfer_first, earlier_runs: false });
                        for k in 0..5 {
                            v.push(Case::Upg { target: UT::Prod(k), req, auth, data, transfer_first, earlier_runs: false });
                        }
                    }
                }
            }
        }
        v
    }

    fn run(&self, case: &Case, cx: &mut Cx) -> Result<(), String> {
        match case {
            Case::Sweep(sw) => crate::sweep::run(sw, cx, crate::sweep::Rule::Code),
            Case::Seq { target, transfer_first, actions } => {
                let w = seq_world(*target, *transfer_first);
                let env = &w.s.env;
                let name = TARGET_NAMES[*target as usize % 6];
                let client = UpgradableClient::new(env, &w.target);
                let hash = BytesN::from_array(env, &empty_wasm_hash());
                let version = client.version();
                let mut open = false;
                let mut owner = w.owner.clone();
                let mut former = w.former.clone();
                if actions.len() > 1 || actions.iter().any(|a| a.kind != Kind::Upgrade || a.who != Who::Owner) {
                    cx.nontrivial();
                }
                cx.label(name);
                let oclient = axelar_soroban_std::interfaces::OwnableClient::new(env, &w.target);
                for (i, a) in actions.iter().enumerate() {
                    // (deterministic in target and position: saved cases keep their format) two months pass before some steps:
                    // an open migration window, and the owner, must still be what they were
                    if (*target as usize + i) % 3 == 2 {
                        advance_ledgers(env, 17280 * 61);
                        cx.label("two_months_pass_between_steps");
                    }
                    let signer: Option<Address> = match a.who {
                        Who::Owner => Some(owner.clone()),
                        Who::Former => Some(former.clone()),
                        Who::Stranger => Some(w.stranger.clone()),
                        Who::Nobody => None,
                    };
                    let next_owner = if owner == w.alt[0] { w.alt[1].clone() } else { w.alt[0].clone() };
                    // (the derive-macro probe's migration hands the contract to whoever its data names: somebody who is not the
                    // owner names itself - the migration must not run before the caller is known to be the owner)
                    let probe_data: Val = match (&signer, a.kind) {
                        (Some(s), Kind::Migrate) if *s != owner => Some(s.clone()).into_val(env),
                        _ => ().into_val(env),
                    };
                    let margs: SVec<Val> = SVec::from_array(env, [if *target % 6 < 5 { prod_migration_data(env, *target % 6) } else { probe_data }]);
                    let uargs: SVec<Val> = SVec::from_array(env, [hash.clone().into_val(env)]);
                    let targs: SVec<Val> = SVec::from_array(env, [next_owner.clone().into_val(env)]);
                    let entries = match &signer {
                        Some(s) => vec![(
                            s.clone(),
                            match a.kind {
                                Kind::Migrate => node(env, &w.target, "migrate", &margs, vec![]),
                                Kind::Upgrade => node(env, &w.target, "upgrade", &uargs, vec![]),
                                Kind::Transfer => node(env, &w.target, "transfer_ownership", &targs, vec![]),
                            },
                        )],
                        None => vec![],
                    };
                    auth::install(env, &entries);
                    // decided by address: the "former owner" class only differs from the owner if ownership ever changed
                    let is_owner = signer.as_ref() == Some(&owner);
                    let expect_ok = match a.kind {
                        Kind::Migrate => is_owner && open,
                        Kind::Upgrade | Kind::Transfer => is_owner,
                    };
                    let snap0 = snapshot(env);
                    let ev0 = events_len(env);
                    let ok = match a.kind {
                        Kind::Migrate => try_migrate(env, &w.target, margs.clone()),
                        Kind::Upgrade => matches!(client.try_upgrade(&hash), Ok(Ok(()))),
                        Kind::Transfer => matches!(oclient.try_transfer_ownership(&next_owner), Ok(Ok(()))),
                    };
                    if expect_ok {
                        cx.count("must_succeed");
                        ensure_p!(ok, "{}: step {} {:?} refused although authorised by the current owner{} (sequence {:?})", name, i, a, if a.kind == Kind::Migrate { " with the migration window open" } else { "" }, actions);
                        match a.kind {
                            Kind::Migrate => {
                                open = false;
                                let evs: Vec<_> = events_since(env, ev0).into_iter().filter(|e| e.0 == w.target).collect();
                                // "announces the new version": one event by the target that carries the version string
                                let vsc = scv(env, version.clone());
                                let carries = |e: &Ev| e.1.contains(&vsc) || e.2 == vsc || matches!(&e.2, soroban_sdk::xdr::ScVal::Vec(Some(v)) if v.contains(&vsc));
                                ensure_p!(evs.iter().any(|e| carries(e)), "{}: migration did not announce the version in any event: {:?}", name, evs);
                            }
                            Kind::Upgrade => open = true,
                            Kind::Transfer => {
                                if open {
                                    cx.label("ownership_changes_while_window_open");
                                }
                                former = owner.clone();
                                owner = next_owner.clone();
                                ensure_p!(oclient.owner() == owner, "{}: owner() does not name the successor", name);
                            }
                        }
                    } else {
                        cx.count("must_fail");
                        ensure_p!(
                            !ok,
                            "{}: step {} {:?} succeeded without the current owner's authorisation or outside the migration window (window open: {}, sequence {:?}, ownership transferred first: {})",
                            name,
                            i,
                            a,
                            open,
                            actions,
                            transfer_first
                        );
                        ensure_p!(snapshot(env) == snap0, "{}: step {} refused call changed the ledger", name, i);
                        ensure_p!(events_len(env) == ev0, "{}: step {} refused call emitted events", name, i);
                    }
                    // cross-check only (the flag's storage key is an implementation detail): recorded, never a verdict
                    if migrating_flag(env, &w.target) != open {
                        cx.count("flag_read_disagrees_with_window_model");
                    }
                    ensure_p!(client.version() == version, "{}: version changed", name);
                }
                Ok(())
            }
            Case::Upg { target, req, auth, data, transfer_first, earlier_runs } => {
                cx.nontrivial();
                cx.label("upgrader");
                let s = build_sys();
                let env = &s.env;
                let upg_id = env.register(Upgrader, ());
                let upg = UpgraderClient::new(env, &upg_id);
                let owner0 = s.pool[EXTRA_B].clone();
                let empty = BytesN::from_array(env, &empty_wasm_hash());
                // target
                let (taddr, owner_initial, cur_version, next_version, new_hash): (Address, Address, &str, &str, BytesN<32>) = match target {
                    UT::VerProbe if *earlier_runs => {
                        // 0.8.0 --Upgrader--> 0.9.0 --owner, directly--> 1.0.0
                        let t = env.register(VerProbe, (owner0.clone(), sstr(env, "0.8.0")));
                        env.mock_all_auths_allowing_non_root_auth();
                        let d: SVec<Val> = SVec::from_array(env, [sstr(env, "0.9.0").into_val(env), 1u32.into_val(env), false.into_val(env)]);
                        let r = upg.try_upgrade(&t, &sstr(env, "0.9.0"), &empty, &d);
                        ensure_p!(matches!(r, Ok(Ok(()))), "setup: a fully authorised Upgrader run was refused");
                        let p = VerProbeClient::new(env, &t);
                        p.upgrade(&empty);
                        p.migrate(&sstr(env, "1.0.0"), &2u32, &false);
                        env.set_auths(&[]);
                        cx.label("upgrader:after_an_earlier_run_and_a_direct_upgrade");
                        (t, owner0.clone(), "1.0.0", "1.1.0", empty.clone())
                    }
                    UT::VerProbe => (env.register(VerProbe, (owner0.clone(), sstr(env, "1.0.0"))), owner0.clone(), "1.0.0", "1.1.0", empty.clone()),
                    UT::Dummy => (env.register(DummyLike, (owner0.clone(),)), owner0.clone(), "0.1.0", "0.2.0", env.deployer().upload_contract_wasm(DUMMY_WASM)),
                    UT::Prod(k) => {
                        let (a, o) = match k % 5 {
                            0 => (s.gw.address.clone(), s.pool[GW_OWNER].clone()),
                            1 => (s.gas.address.clone(), s.pool[GAS_OWNER].clone()),
                            2 => (s.ops.address.clone(), s.pool[OPS_OWNER].clone()),
                            3 => (s.its.address.clone(), s.pool[ITS_OWNER].clone()),
                            _ => (s.token.address.clone(), s.pool[TOKEN_OWNER].clone()),
                        };
                        (a, o, "0.1.0", "0.2.0", empty.clone())
                    }
                };
                let tclient = UpgradableClient::new(env, &taddr);
                let (owner, former) = if *transfer_first {
                    env.mock_all_auths();
                    let n = s.pool[EXTRA_A].clone();
                    axelar_soroban_std::interfaces::OwnableClient::new(env, &taddr).transfer_ownership(&n);
                    (n, owner_initial)
                } else {
                    (owner_initial, Address::generate(env))
                };
                ensure_p!(sstring_to_vec(&tclient.version()) == cur_version.as_bytes(), "unexpected initial version");
                let extended = format!("{}.1", cur_version);
                let requested: &str = match req {
                    Req::Same => cur_version,
                    Req::Next => next_version,
                    Req::Wrong => "9.9.9",
                    Req::NextExtendsCurrent => &extended,
                    Req::PrefixOfReported => "1.1",
                    Req::Empty => "",
                };
                // migration data
                let applicable = match (target, data) {
                    (UT::VerProbe, _) => true,
                    (_, Data::Fails | Data::ReportsOtherVersion | Data::ReportsOldVersion | Data::VersionUnreadableAfterwards(_)) => false,
                    _ => true,
                };
                let data = if applicable { *data } else { Data::WellTyped };
                let mdata: SVec<Val> = match (target, data) {
                    (UT::VerProbe, d) => {
                        let reported = match (d, req) {
                            (Data::ReportsOtherVersion, _) => "7.7.7",
                            (Data::ReportsOldVersion, _) => cur_version,
                            (Data::VersionUnreadableAfterwards(true), _) => "",
                            (Data::VersionUnreadableAfterwards(false), _) => "#",
                            (_, Req::PrefixOfReported | Req::Empty) => "1.1.0",
                            _ => requested,
                        };
                        match d {
                            Data::IllTyped => SVec::from_array(env, [sstr(env, reported).into_val(env), sstr(env, "not-a-number").into_val(env), false.into_val(env)]),
                            Data::TooManyArgs => SVec::from_array(env, [sstr(env, reported).into_val(env), 5u32.into_val(env), false.into_val(env), 1u32.into_val(env)]),
                            _ => SVec::from_array(env, [sstr(env, reported).into_val(env), 5u32.into_val(env), (d == Data::Fails).into_val(env)]),
                        }
                    }
                    (UT::Dummy, Data::IllTyped) => SVec::from_array(env, [5u32.into_val(env)]),
                    (UT::Dummy, Data::TooManyArgs) => SVec::from_array(env, [sstr(env, "data").into_val(env), 1u32.into_val(env)]),
                    (UT::Dummy, _) => SVec::from_array(env, [sstr(env, "data").into_val(env)]),
                    (UT::Prod(_), Data::IllTyped) => SVec::from_array(env, [5u32.into_val(env)]),
                    (UT::Prod(_), Data::TooManyArgs) => SVec::from_array(env, [().into_val(env), ().into_val(env)]),
                    (UT::Prod(k), _) => SVec::from_array(env, [prod_migration_data(env, *k)]),
                };
                // what would happen with full authority
                let version_after_if_migrated: Option<&str> = match (target, data) {
                    (_, Data::IllTyped | Data::TooManyArgs | Data::Fails | Data::VersionUnreadableAfterwards(_)) => None,
                    (UT::VerProbe, Data::ReportsOtherVersion) => Some("7.7.7"),
                    (UT::VerProbe, Data::ReportsOldVersion) => Some(cur_version),
                    (UT::VerProbe, _) if matches!(req, Req::PrefixOfReported | Req::Empty) => Some("1.1.0"),
                    (UT::VerProbe, _) => Some(requested),
                    (UT::Dummy, _) => Some("0.2.0"),
                    (UT::Prod(_), _) => Some("0.1.0"),
                };
                let full_auth = matches!(auth, AuthCov::Both);
                let expect_ok = requested != cur_version && full_auth && version_after_if_migrated == Some(requested);
                // authorisation entries
                let uargs: SVec<Val> = SVec::from_array(env, [new_hash.clone().into_val(env)]);
                let up_node = node(env, &taddr, "upgrade", &uargs, vec![]);
                let mig_node = node(env, &taddr, "migrate", &mdata, vec![]);
                let stranger = s.pool[STRANGER].clone();
                let entries: Vec<(Address, SorobanAuthorizedInvocation)> = match auth {
                    AuthCov::Both => vec![(owner.clone(), up_node.clone()), (owner.clone(), mig_node.clone())],
                    AuthCov::UpgradeOnly => vec![(owner.clone(), up_node.clone())],
                    AuthCov::MigrateOnly => vec![(owner.clone(), mig_node.clone())],
                    AuthCov::None => vec![],
                    AuthCov::BothByNonOwner => vec![(stranger.clone(), up_node.clone()), (stranger.clone(), mig_node.clone())],
                    AuthCov::BothByFormerOwner => vec![(former.clone(), up_node.clone()), (former.clone(), mig_node.clone())],
                };
                auth::install(env, &entries);
                cx.label(&format!("upgrader:{:?}", target).split('(').next().unwrap().to_string());
                let tstate0 = snapshot_of(env, &taddr);
                let snap0 = snapshot(env);
                let ev0 = events_len(env);
                let r = upg.try_upgrade(&taddr, &sstr(env, requested), &new_hash, &mdata);
                let ok = matches!(r, Ok(Ok(())));
                if expect_ok {
                    cx.count("must_succeed");
                    ensure_p!(ok, "Upgrader refused a fully authorised upgrade of {:?} to the real next version (auth {:?}, data {:?})", target, auth, data);
                    ensure_p!(sstring_to_vec(&tclient.version()) == requested.as_bytes(), "after a successful Upgrader run the target does not report the requested version");
                    if let UT::VerProbe = target {
                        ensure_p!(VerProbeClient::new(env, &taddr).data() == Some(5), "migration data not stored");
                    }
                    if migrating_flag(env, &taddr) {
                        cx.count("flag_read_disagrees_with_window_model");
                    }
                } else {
                    cx.count("must_fail");
                    ensure_p!(
                        !ok,
                        "Upgrader reported success for {:?} (current {}, requested {}, auth {:?}, data {:?}, version the new code would report: {:?})",
                        target,
                        cur_version,
                        requested,
                        auth,
                        data,
                        version_after_if_migrated
                    );
                    ensure_p!(snapshot_of(env, &taddr) == tstate0, "failed Upgrader run left the target changed (code, version, data or migration flag)");
                    ensure_p!(snapshot(env) == snap0, "failed Upgrader run changed the ledger");
                    ensure_p!(events_len(env) == ev0, "failed Upgrader run emitted events");
                    ensure_p!(sstring_to_vec(&tclient.version()) == cur_version.as_bytes(), "version changed by a failed Upgrader run");
                }
                Ok(())
            }
        }
    }
}
