//! C03 — rotation installs only well-formed sets, authorised by the latest signers.
//! (a) histories of rotation attempts, (b) constructor cases.

use super::gwgen::*;
use crate::engine::{Cx, Property, Tier};
use crate::ensure_p;
use crate::world::*;
use proptest::prelude::*;
#[allow(unused_imports)]
use crate::prop_oneof;
use serde::{Deserialize, Serialize};
use soroban_sdk::BytesN;
use std::collections::BTreeSet;

pub struct C03;

#[derive(Clone, Copy, Debug, Serialize, Deserialize, PartialEq, Eq)]
pub enum Malform {
    Empty,
    AdjacentEqual(u8),
    /// the same key twice in a row, the second entry with a larger (true) or smaller (false) weight
    AdjacentEqualOtherWeight(u8, bool),
    Descending(u8),
    FirstKeyZero,
    ZeroWeight(u8),
    WeightsOverflow,
    ThresholdZero,
    ThresholdTotalPlus1,
    /// an otherwise well-formed set whose signers vector holds one more element that is no signer (kind, position:
    /// see `BuiltSet::junk`); signed over, hashed and submitted exactly like that
    JunkEntry(u8, u8),
}

#[derive(Clone, Debug, Serialize, Deserialize, PartialEq, Eq)]
pub enum Cand {
    Fresh(SetGen),
    Malformed(SetGen, Malform),
    /// a set installed earlier in this history (monotone index, oldest first)
    Repeat(u16),
    /// same signers, weights and threshold as an installed set, but a new nonce: a different set
    Renonce(u16),
}

#[derive(Clone, Copy, Debug, Serialize, Deserialize, PartialEq, Eq)]
pub enum Prover {
    Latest,
    /// any installed set (monotone index, newest first)
    Installed(u16),
    NeverInstalled,
    LatestSigningOtherCandidate,
    /// the latest set, but only its last signers sign: the largest suffix whose combined weight stays below the
    /// threshold (the signers not signing are listed unsigned, heavier ones first if the weights say so)
    LatestSubThresholdSuffix,
    /// the latest set, the smallest suffix of signers whose combined weight reaches the threshold
    LatestSufficientSuffix,
    /// the latest set's entries, but one signer's entry is listed (and signed) several times - as often as it takes
    /// for the repeated weight to reach the threshold - while every other member is listed unsigned: not a proof by
    /// the set (one key holder signed)
    #[serde(alias = "LatestWithRepeatedEntries")]
    LatestOneSignerRepeated(u16),
}

#[derive(Clone, Debug, Serialize, Deserialize, PartialEq, Eq)]
pub struct Attempt {
    pub cand: Cand,
    pub prover: Prover,
    pub bypass: bool,
    pub operator_auth: bool,
    /// days that pass before this attempt (epochs and lookups must not decay with time)
    #[serde(default)]
    pub days_before: u8,
}

#[derive(Clone, Debug, Serialize, Deserialize)]
pub enum Case {
    History { retention: u8, initial: Vec<SetGen>, attempts: Vec<Attempt> },
    Ctor { sets: Vec<Cand> },
    /// entry-point sweep (see sweep.rs)
    Sweep(crate::sweep::SweepCase),
}

fn malform() -> impl Strategy<Value = Malform> {
    prop_oneof![
        Just(Malform::Empty),
        (0u8..8).prop_map(Malform::AdjacentEqual),
        (0u8..8, any::<bool>()).prop_map(|(k, up)| Malform::AdjacentEqualOtherWeight(k, up)),
        (0u8..8).prop_map(Malform::Descending),
        Just(Malform::FirstKeyZero),
        (0u8..8).prop_map(Malform::ZeroWeight),
        Just(Malform::WeightsOverflow),
        Just(Malform::ThresholdZero),
        Just(Malform::ThresholdTotalPlus1),
        (0u8..4, 0u8..9).prop_map(|(k, p)| Malform::JunkEntry(k, p)),
    ]
}

fn cand() -> impl Strategy<Value = Cand> {
    prop_oneof![
        5 => setgen(6).prop_map(Cand::Fresh),
        4 => (setgen(6), malform()).prop_map(|(g, m)| Cand::Malformed(g, m)),
        2 => any::<u16>().prop_map(Cand::Repeat),
        1 => any::<u16>().prop_map(Cand::Renonce),
    ]
}

fn prover() -> impl Strategy<Value = Prover> {
    prop_oneof![
        6 => Just(Prover::Latest),
        3 => any::<u16>().prop_map(Prover::Installed),
        1 => Just(Prover::NeverInstalled),
        1 => Just(Prover::LatestSigningOtherCandidate),
        2 => Just(Prover::LatestSubThresholdSuffix),
        2 => Just(Prover::LatestSufficientSuffix),
        2 => any::<u16>().prop_map(Prover::LatestOneSignerRepeated),
    ]
}

fn attempt() -> impl Strategy<Value = Attempt> {
    (cand(), prover(), prop_oneof![3 => Just(false), 2 => Just(true)], prop_oneof![3 => Just(true), 1 => Just(false)], prop_oneof![5 => Just(0u8), 1 => 1u8..100])
        .prop_map(|(cand, prover, bypass, operator_auth, days_before)| Attempt { cand, prover, bypass, operator_auth, days_before })
}

/// Apply a malformation to a well-formed set (keys stay real keys except where stated).
pub fn apply(g: &SetGen, m: Malform, nonce: u8) -> BuiltSet {
    let mut g = g.clone();
    // make sure there are at least two distinct signers for the pairwise malformations
    let mut distinct: Vec<u16> = vec![];
    for s in &g.seeds {
        if !distinct.contains(s) {
            distinct.push(*s);
        }
    }
    if distinct.len() < 2 {
        g.seeds.push(distinct[0].wrapping_add(1) % 400);
        g.w.push(WClass::One);
    }
    let mut b = g.build(nonce);
    let n = b.len();
    match m {
        Malform::Empty => {
            b.pks.clear();
            b.weights.clear();
            b.sks.clear();
        }
        Malform::AdjacentEqual(k) => {
            let i = k as usize % n;
            b.pks.insert(i, b.pks[i]);
            b.weights.insert(i, b.weights[i]);
            let sk = b.sks[i].clone();
            b.sks.insert(i, sk);
        }
        Malform::AdjacentEqualOtherWeight(k, up) => {
            let i = k as usize % n;
            b.pks.insert(i + 1, b.pks[i]);
            let w = b.weights[i];
            if up {
                b.weights.insert(i + 1, w.checked_add(1).unwrap_or(w));
                if w == u128::MAX {
                    b.weights[i] = w - 1;
                }
            } else {
                b.weights[i] = w.checked_add(1).unwrap_or(w);
                b.weights.insert(i + 1, if w == u128::MAX { w - 1 } else { w });
            }
            let sk = b.sks[i].clone();
            b.sks.insert(i + 1, sk);
            // keep the only malformation the repeated key
            if b.total_weight().is_none() {
                for x in b.weights.iter_mut() {
                    *x = (*x).min(1000);
                }
            }
            let total = b.total_weight().unwrap();
            b.threshold = b.threshold.clamp(1, total);
        }
        Malform::Descending(k) => {
            let i = k as usize % (n - 1);
            b.pks.swap(i, i + 1);
            b.weights.swap(i, i + 1);
            b.sks.swap(i, i + 1);
        }
        Malform::FirstKeyZero => b.pks[0] = [0; 32],
        Malform::ZeroWeight(k) => {
            let i = k as usize % n;
            b.weights[i] = 0;
            if b.threshold > b.total_weight().unwrap_or(u128::MAX) {
                b.threshold = 1;
            }
        }
        Malform::WeightsOverflow => {
            b.weights[0] = u128::MAX;
            b.weights[1] = b.weights[1].max(1);
            b.threshold = b.threshold.max(1);
        }
        Malform::ThresholdZero => b.threshold = 0,
        Malform::JunkEntry(k, p) => b.junk = Some((k, p)),
        Malform::ThresholdTotalPlus1 => match b.total_weight().and_then(|t| t.checked_add(1)) {
            Some(t) => b.threshold = t,
            None => b.threshold = 0,
        },
    }
    b
}

fn resolve(c: &Cand, installed: &[BuiltSet], nonce: u8, cx: &mut Cx) -> BuiltSet {
    match c {
        Cand::Fresh(g) => g.build(nonce),
        Cand::Malformed(g, m) => {
            cx.label(&format!("malformed:{}", format!("{:?}", m).split('(').next().unwrap()));
            apply(g, *m, nonce)
        }
        Cand::Repeat(i) => {
            if installed.is_empty() {
                SetGen { seeds: vec![1], w: vec![WClass::One], t: TClass::One }.build(nonce)
            } else {
                cx.label("repeat_of_installed_set");
                installed[pick(*i, installed.len())].clone()
            }
        }
        Cand::Renonce(i) => {
            if installed.is_empty() {
                SetGen { seeds: vec![1], w: vec![WClass::One], t: TClass::One }.build(nonce)
            } else {
                cx.label("same_signers_new_nonce");
                let mut b = installed[pick(*i, installed.len())].clone();
                b.nonce = [nonce; 32];
                b
            }
        }
    }
}

#[derive(PartialEq, Debug, Clone, Copy)]
enum E {
    Ok,
    Fail,
    Either,
}

fn lookups_consistent(gw: &Gw, env: &soroban_sdk::Env, model: &SignerModel, attempted: &BTreeSet<[u8; 32]>, at: &str) -> Result<(), String> {
    let epoch = gw.client.epoch();
    ensure_p!(epoch == model.epoch, "{}: epoch() = {} but reference says {}", at, epoch, model.epoch);
    // epoch -> hash defined exactly for 1..=epoch
    for e in 0..=model.epoch + 2 {
        let r = gw.client.try_signers_hash_by_epoch(&e);
        let want: Option<[u8; 32]> = model.by_hash.iter().find(|(_, ee)| **ee == e).map(|(h, _)| *h);
        match (r, want) {
            (Ok(Ok(h)), Some(w)) => ensure_p!(h.to_array() == w, "{}: signers_hash_by_epoch({}) differs from the independent hash of the set installed then", at, e),
            (Ok(Ok(_)), None) => return Err(format!("{}: signers_hash_by_epoch({}) is defined but no set was installed at that epoch", at, e)),
            (_, Some(_)) => return Err(format!("{}: signers_hash_by_epoch({}) is undefined but a set was installed at that epoch", at, e)),
            (_, None) => {}
        }
    }
    // hash -> epoch defined exactly for installed hashes, and inverse of the above
    for h in attempted {
        let r = gw.client.try_epoch_by_signers_hash(&BytesN::from_array(env, h));
        match (r, model.by_hash.get(h)) {
            (Ok(Ok(e)), Some(w)) => ensure_p!(e == *w, "{}: epoch_by_signers_hash gives {} for a set installed at epoch {}", at, e, w),
            (Ok(Ok(e)), None) => return Err(format!("{}: epoch_by_signers_hash defined ({}) for a set that was never installed", at, e)),
            (_, Some(w)) => return Err(format!("{}: epoch_by_signers_hash undefined for the set installed at epoch {}", at, w)),
            (_, None) => {}
        }
    }
    Ok(())
}

impl Property for C03 {
    type Case = Case;
    fn id(&self) -> &'static str {
        "C03"
    }
    fn rule(&self) -> &'static str {
        "proptest: (a) gateway with retention 0-3 or u64::MAX(-1) and 1-3 initial sets, history of <=8 (quick) / <=14 (thorough) rotation attempts, each = candidate (fresh well-formed set with boundary weights/thresholds; or one malformation: empty, adjacent equal keys (same, larger or smaller weight on the repeat), descending pair, all-zero first key, zero weight, weights summing past u128, threshold 0 / total+1; or a repeat of an installed set; or an installed set's signers under a new nonce, which is a different set) x proving set (latest, any installed, never installed, latest signing a different candidate, latest with only a suffix of its signers signing - just below / just reaching the threshold -, latest with one signer's entry listed and signed repeatedly up to the threshold while every other member is listed unsigned) x bypass x operator authorisation; (b) constructor cases with 0-4 such candidates. Oracle: well-formedness predicate from the statement, reference epoch/lookup model with independent set hashes, inverse-lookup invariant over every epoch and every hash ever attempted after each step, ledger-snapshot equality after every failure. non-trivial = a malformed or repeated candidate, or a non-latest proving set, occurs. A share of the random cases is an entry-point sweep (construction as described for C13: the exported functions of all shipped contracts read from the sources of the tree under test, a complete deployed system, pooled arguments - including well-formed signer sets nobody installed and proofs properly signed by the gateway's own signer set over digests that belong to no command -, every require_auth satisfied by the host's mock and recorded; entry points absent from the pinned inventory get 300 deterministic cases each); oracle: no call changes the epoch or emits signers_rotated since no valid proof for any rotation exists in these cases; non-trivial = the call succeeded Since round 13 a candidate (or an initial set) may also be an otherwise well-formed set whose signers vector holds one more element that is no signer (a struct with a 64-bit weight, void, a number, a struct with a 31-byte key), built from raw values, hashed with the harness's own XDR writer and signed exactly like that: it must be refused."
    }
    fn assumptions(&self) -> Vec<&'static str> {
        vec!["a well-formed set whose first key is all-zero is not decided by the statement (Either)"]
    }
    fn cases(&self, tier: Tier) -> u64 {
        tier.pick(10000, 100000)
    }
    fn strategy(&self, tier: Tier) -> BoxedStrategy<Case> {
        let n = tier.pick(8usize, 14usize);
        let direct = prop_oneof![
            4 => (0u8..6, proptest::collection::vec(setgen(5), 1..4), proptest::collection::vec(attempt(), 1..=n))
                .prop_map(|(retention, initial, attempts)| Case::History { retention, initial, attempts }),
            1 => proptest::collection::vec(cand(), 0..5).prop_map(|sets| Case::Ctor { sets }),
        ]
        .boxed();
        match crate::sweep::strategy(crate::sweep::Rule::Proofless) {
            Some(sw) => prop_oneof![9 => direct, 1 => sw.prop_map(Case::Sweep)].boxed(),
            None => direct,
        }
    }
    fn fixed_cases(&self, _tier: Tier) -> Vec<Case> {
        let g = |s: Vec<u16>| SetGen { w: vec![WClass::Small(2); s.len()], seeds: s, t: TClass::Total };
        let mut v: Vec<Case> = crate::sweep::fixed_cases(300).into_iter().map(Case::Sweep).collect();
        for m in [
            Malform::Empty,
            Malform::AdjacentEqual(0),
            Malform::AdjacentEqual(1),
            Malform::AdjacentEqualOtherWeight(0, true),
            Malform::AdjacentEqualOtherWeight(1, false),
            Malform::Descending(0),
            Malform::FirstKeyZero,
            Malform::ZeroWeight(1),
            Malform::WeightsOverflow,
            Malform::ThresholdZero,
            Malform::ThresholdTotalPlus1,
            Malform::JunkEntry(0, 1),
            Malform::JunkEntry(0, 0),
            Malform::JunkEntry(1, 1),
            Malform::JunkEntry(2, 9),
            Malform::JunkEntry(3, 1),
        ] {
            v.push(Case::History {
                retention: 1,
                initial: vec![g(vec![1, 2])],
                attempts: vec![
                    Attempt { cand: Cand::Malformed(g(vec![3, 4, 5]), m), prover: Prover::Latest, bypass: false, operator_auth: true, days_before: 0 },
                    Attempt { cand: Cand::Fresh(g(vec![3, 4, 5])), prover: Prover::Latest, bypass: false, operator_auth: true, days_before: 20 },
                    Attempt { cand: Cand::Repeat(0), prover: Prover::Latest, bypass: false, operator_auth: true, days_before: 0 },
                ],
            });
            v.push(Case::Ctor { sets: vec![Cand::Fresh(g(vec![1, 2])), Cand::Malformed(g(vec![3, 4]), m)] });
        }
        v.push(Case::Ctor { sets: vec![] });
        v.push(Case::Ctor { sets: vec![Cand::Fresh(g(vec![1, 2])), Cand::Repeat(0)] });
        v
    }

    fn run(&self, case: &Case, cx: &mut Cx) -> Result<(), String> {
        let env = new_env();
        match case {
            Case::Sweep(sw) => return crate::sweep::run(sw, cx, crate::sweep::Rule::Proofless),
            Case::Ctor { sets } => {
                cx.label("constructor_case");
                let mut built: Vec<BuiltSet> = vec![];
                let mut expect = if sets.is_empty() { E::Fail } else { E::Ok };
                let mut seen: BTreeSet<[u8; 32]> = BTreeSet::new();
                for (i, c) in sets.iter().enumerate() {
                    let b = resolve(c, &built, i as u8, cx);
                    if !b.well_formed() || !seen.insert(b.hash()) {
                        expect = E::Fail;
                    } else if b.pks[0] == [0u8; 32] && expect == E::Ok {
                        expect = E::Either;
                    }
                    built.push(b);
                }
                if sets.iter().any(|c| !matches!(c, Cand::Fresh(_))) || sets.is_empty() {
                    cx.nontrivial();
                }
                // deployed through the host's real create-contract path so that a failing
                // constructor is rolled back as on chain
                let factory = deploy_factory(&env);
                inject_native(&env, &factory.predicted(&env, &[1; 32]), axelar_gateway::AxelarGateway);
                let snap0 = snapshot(&env);
                let ev0 = events_len(&env);
                let r = deploy_gateway_atomic(&env, &factory, &[1; 32], [3; 32], 0, 2, &built);
                match expect {
                    E::Ok => {
                        cx.count("must_succeed");
                        ensure_p!(r.is_ok(), "construction with well-formed distinct sets failed: {:?}", r.err());
                    }
                    E::Fail => {
                        cx.count("must_fail");
                        ensure_p!(r.is_err(), "construction succeeded with an empty list / malformed / duplicate initial set");
                    }
                    E::Either => cx.count("either"),
                }
                match r {
                    Ok(gw) => {
                        let mut model = SignerModel { retention: 2, ..Default::default() };
                        for b in &built {
                            model.install(b.hash());
                        }
                        let attempted: BTreeSet<[u8; 32]> = built.iter().map(|b| b.hash()).collect();
                        lookups_consistent(&gw, &env, &model, &attempted, "after construction")?;
                    }
                    Err(_) => {
                        ensure_p!(snapshot(&env) == snap0, "failed construction left ledger entries behind");
                        ensure_p!(events_len(&env) == ev0, "failed construction emitted events");
                    }
                }
                Ok(())
            }
            Case::History { retention, initial, attempts } => {
                let mut installed: Vec<BuiltSet> = initial.iter().enumerate().map(|(i, g)| g.build(i as u8)).collect();
                let retention: u64 = match *retention { 0..=3 => *retention as u64, 4 => u64::MAX, _ => u64::MAX - 1 };
                let gw = deploy_gateway(&env, [3; 32], 0, retention, &installed).map_err(|e| format!("setup: {}", e))?;
                let mut model = SignerModel { retention, ..Default::default() };
                let mut attempted: BTreeSet<[u8; 32]> = BTreeSet::new();
                for b in &installed {
                    model.install(b.hash());
                    attempted.insert(b.hash());
                }
                let mut nontrivial = false;
                let mut days_passed: u32 = 0;
                for (step, a) in attempts.iter().enumerate() {
                    if a.days_before % 7 == 3 {
                        upgrade_and_migrate(&env, &gw.id)?;
                        cx.label("upgrade_and_migration_in_history");
                    }
                    if a.days_before > 0 && days_passed + a.days_before as u32 <= 300 {
                        days_passed += a.days_before as u32;
                        advance_ledgers(&env, a.days_before as u32 * 17280);
                    }
                    let nonce = (initial.len() + step) as u8;
                    let cand = resolve(&a.cand, &installed, nonce, cx);
                    let cand_hash = cand.hash();
                    attempted.insert(cand_hash);
                    if !matches!(a.cand, Cand::Fresh(_)) {
                        nontrivial = true;
                    }
                    // proof
                    let latest = installed.last().unwrap().clone();
                    let (prover, signs_this): (BuiltSet, bool) = match a.prover {
                        Prover::Latest => (latest.clone(), true),
                        Prover::Installed(i) => (installed[installed.len() - 1 - pick(i, installed.len())].clone(), true),
                        Prover::NeverInstalled => (SetGen { seeds: vec![950, 951], w: vec![WClass::One; 2], t: TClass::Total }.build(250), true),
                        Prover::LatestSigningOtherCandidate => (latest.clone(), false),
                        Prover::LatestSubThresholdSuffix | Prover::LatestSufficientSuffix | Prover::LatestOneSignerRepeated(_) => (latest.clone(), true),
                    };
                    let ph = prover.hash();
                    if !model.is_latest(&ph) {
                        nontrivial = true;
                        cx.label(if model.live(&ph) { "prover_older_retained" } else if model.by_hash.contains_key(&ph) { "prover_outdated" } else { "prover_never_installed" });
                    }
                    let data_hash = if signs_this {
                        cand.rotation_data_hash()
                    } else {
                        cx.label("proof_for_other_candidate");
                        nontrivial = true;
                        let mut other = cand.clone();
                        other.nonce[31] ^= 1;
                        other.rotation_data_hash()
                    };
                    let dg = digest(&gw.domain, &ph, &data_hash);
                    // which signers sign
                    let n = prover.pks.len();
                    let suffix_mask = |k: usize| -> u32 { (0..n).filter(|i| *i >= n - k).fold(0u32, |m, i| m | (1 << i)) };
                    let (mask, weight_ok) = match a.prover {
                        Prover::LatestSubThresholdSuffix => {
                            let k = (0..=n).rev().find(|k| prover.mask_weight(suffix_mask(*k)).map(|w| w < prover.threshold).unwrap_or(false)).unwrap_or(0);
                            cx.label("proof_signed_by_a_suffix_below_threshold");
                            nontrivial = true;
                            (suffix_mask(k), false)
                        }
                        Prover::LatestSufficientSuffix => {
                            let k = (0..=n).find(|k| prover.mask_weight(suffix_mask(*k)).map(|w| w >= prover.threshold).unwrap_or(false)).unwrap_or(n);
                            if k < n {
                                cx.label("proof_signed_by_a_sufficient_proper_suffix");
                                nontrivial = true;
                            }
                            (suffix_mask(k), true)
                        }
                        _ => (prover.full_mask(), true),
                    };
                    let mut proof = prover.proof(&env, &dg, mask);
                    let mut weight_ok = weight_ok;
                    if let Prover::LatestOneSignerRepeated(i) = a.prover {
                        let who = pick(i, n);
                        let alone = prover.weights[who] >= prover.threshold;
                        let mut pd = ProofData::honest(&prover, &dg, 1 << who);
                        let entry = pd.entries[who];
                        let mut carried = prover.weights[who];
                        let mut copies = 1;
                        while (carried < prover.threshold || copies < 2) && copies < 24 {
                            pd.entries.insert(who, entry);
                            carried = carried.saturating_add(prover.weights[who]);
                            copies += 1;
                        }
                        cx.label(if alone { "proof_repeats_an_entry_of_a_signer_sufficient_alone" } else if carried >= prover.threshold { "proof_repeats_one_signers_entry_up_to_the_threshold" } else { "proof_repeats_one_signers_entry_below_threshold" });
                        nontrivial = true;
                        proof = pd.to_soroban(&env);
                        // the listed entries are not the installed set, and (unless that signer suffices alone) one
                        // key holder's weight is below the threshold
                        weight_ok = false;
                    }

                    let proof_ok = signs_this && weight_ok && model.live(&ph) && (model.is_latest(&ph) || a.bypass);
                    let auth_ok = !a.bypass || a.operator_auth;
                    let fresh = !model.by_hash.contains_key(&cand_hash);
                    let expect = if !cand.well_formed() || !fresh || !proof_ok || !auth_ok {
                        E::Fail
                    } else if cand.pks[0] == [0u8; 32] {
                        E::Either
                    } else {
                        E::Ok
                    };
                    if a.bypass {
                        cx.label(if a.operator_auth { "bypass_authorised" } else { "bypass_unauthorised" });
                    }
                    let snap0 = snapshot(&env);
                    let ev0 = events_len(&env);
                    let client = if a.operator_auth { gw.client.mock_all_auths() } else { gw.client.mock_auths(&[]) };
                    let r = client.try_rotate_signers(&cand.to_soroban(&env), &proof, &a.bypass);
                    let ok = matches!(r, Ok(Ok(())));
                    match expect {
                        E::Ok => {
                            cx.count("must_succeed");
                            ensure_p!(ok, "step {}: well-formed new set with a valid proof from {} was refused: {:?}", step, if a.bypass { "a retained set (bypass)" } else { "the latest set" }, r);
                        }
                        E::Fail => {
                            cx.count("must_fail");
                            ensure_p!(
                                !ok,
                                "step {}: rotation accepted although well_formed={} fresh={} proof_ok={} auth_ok={} (candidate {:?})",
                                step,
                                cand.well_formed(),
                                fresh,
                                proof_ok,
                                auth_ok,
                                a.cand
                            );
                        }
                        E::Either => cx.count("either"),
                    }
                    if ok {
                        model.install(cand_hash);
                        installed.push(cand.clone());
                    } else {
                        ensure_p!(snapshot(&env) == snap0, "step {}: failed rotation changed the ledger (epoch, lookups or rotation clock)", step);
                        ensure_p!(events_len(&env) == ev0, "step {}: failed rotation emitted events", step);
                    }
                    lookups_consistent(&gw, &env, &model, &attempted, &format!("after step {}", step))?;
                    if ok && cand.pks[0] == [0u8; 32] {
                        // a set whose first key is not a real key was installed (allowed: Either); the
                        // harness cannot sign for it, so the history ends here
                        break;
                    }
                }
                if nontrivial {
                    cx.nontrivial();
                }
                Ok(())
            }
        }
    }
}
