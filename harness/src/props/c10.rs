//! C10 — ITS codec is exact canonical Solidity ABI and never misdecodes (proptest part).

use super::c10core::*;
use crate::engine::{take_last_panic, Cx, Property, Tier};
use crate::ensure_p;
use crate::oracle::{word_u128, word_u64, AHub, AMsg};
use crate::world::*;
use interchain_token_service::types::{HubMessage, Message};
use proptest::prelude::*;
#[allow(unused_imports)]
use crate::prop_oneof;
use serde::{Deserialize, Serialize};
use soroban_sdk::{Env, String as SString};

pub struct C10;

#[derive(Clone, Debug, Serialize, Deserialize, PartialEq, Eq)]
pub enum Text {
    Utf8(String),
    /// invalid UTF-8: seeded bytes followed by 0xff
    Invalid(u8, u64),
}

impl Text {
    fn bytes(&self) -> Vec<u8> {
        match self {
            Text::Utf8(s) => s.as_bytes().to_vec(),
            Text::Invalid(n, seed) => {
                let mut v = seeded_bytes(*seed, *n as usize);
                v.push(0xff);
                v
            }
        }
    }
    fn valid(&self) -> bool {
        std::str::from_utf8(&self.bytes()).is_ok()
    }
}

#[derive(Clone, Copy, Debug, Serialize, Deserialize, PartialEq, Eq)]
pub enum Amount {
    Zero,
    One,
    Pow64,
    Max,
    Rand(u64),
    RandHigh(u64),
}

impl Amount {
    fn val(&self) -> i128 {
        match self {
            Amount::Zero => 0,
            Amount::One => 1,
            Amount::Pow64 => 1i128 << 64,
            Amount::Max => i128::MAX,
            Amount::Rand(v) => *v as i128,
            Amount::RandHigh(v) => ((*v as i128) << 63) | 0x1234,
        }
    }
}

#[derive(Clone, Debug, Serialize, Deserialize, PartialEq, Eq)]
pub struct Blob {
    pub len: u16,
    pub seed: u64,
}

impl Blob {
    /// mostly pseudo-random content; one seed in eight gives an all-zero, one an all-0xff field
    /// (e.g. 20 zero bytes = the EVM zero address, 32 zero bytes = an empty word)
    fn bytes(&self) -> Vec<u8> {
        match self.seed % 8 {
            0 => vec![0u8; self.len as usize],
            1 => vec![0xffu8; self.len as usize],
            _ => seeded_bytes(self.seed, self.len as usize),
        }
    }
}

#[derive(Clone, Debug, Serialize, Deserialize, PartialEq, Eq)]
pub enum Inner {
    Transfer { token: u8, src: Blob, dst: Blob, amount: Amount, data: Option<Blob> },
    Deploy { token: u8, name: Text, symbol: Text, decimals: u8, minter: Option<Blob> },
}

#[derive(Clone, Debug, Serialize, Deserialize, PartialEq, Eq)]
pub struct Hub {
    pub send: bool,
    pub chain: Text,
    pub inner: Inner,
}

#[derive(Clone, Copy, Debug, Serialize, Deserialize, PartialEq, Eq)]
pub enum Mutation {
    None,
    BitFlip(u32),
    /// replace the 32-byte word at index (mod words) by a special value
    WordSet(u16, Special),
    /// add a small signed delta to the word's low 8 bytes
    WordAdd(u16, i16),
    Truncate(u16),
    AppendZeros(u16),
    AppendByte(u8),
    /// set one byte in the last 31 bytes region (padding) to non-zero
    DirtyTail(u8),
    /// set a high byte of a word
    DirtyHigh(u16, u8),
}

#[derive(Clone, Copy, Debug, Serialize, Deserialize, PartialEq, Eq)]
pub enum Special {
    Zero,
    Five,
    Two,
    Pow127,
    Pow128,
    AllOnes,
    U32Max,
    U32MaxPlus1,
    Pow63,
    U64Max,
    U64MaxMinus31,
    Small(u16),
}

impl Special {
    fn word(&self) -> [u8; 32] {
        match self {
            Special::Zero => [0; 32],
            Special::Five => word_u64(5),
            Special::Two => word_u64(2),
            Special::Pow127 => word_u128(1u128 << 127),
            Special::Pow128 => {
                let mut w = [0u8; 32];
                w[15] = 1;
                w
            }
            Special::AllOnes => [0xff; 32],
            Special::U32Max => word_u64(u32::MAX as u64),
            Special::U32MaxPlus1 => word_u64(u32::MAX as u64 + 1),
            Special::Pow63 => word_u64(1 << 63),
            Special::U64Max => word_u64(u64::MAX),
            Special::U64MaxMinus31 => word_u64(u64::MAX - 31),
            Special::Small(v) => word_u64(*v as u64),
        }
    }
}

#[derive(Clone, Debug, Serialize, Deserialize)]
pub enum Case {
    /// structured message: encode vs own encoder, round trip
    Msg { hub: Hub, empty_as_some: bool },
    /// inner message alone
    InnerMsg { inner: Inner, empty_as_some: bool },
    /// uniformly random bytes
    Random { len: u16, seed: u64, first_word_tag: Option<u8> },
    /// a valid encoding with up to two mutations
    Mutated { hub: Hub, inner_only: bool, m1: Mutation, m2: Mutation },
    /// raw bytes (hex), e.g. fuzzer finds kept as regression inputs
    Raw { hex: String },
    /// a canonical hub envelope around an inner message that was mutated (or replaced by a short blob) *before*
    /// wrapping: the envelope itself is well-formed, only the nested message is not
    Nested { hub: Hub, m1: Mutation, m2: Mutation, short: Option<(u8, u64)> },
    /// the same message in a well-formed but non-canonical layout: tails in another order, a gap of zero words
    /// before the tails, equal dynamic fields sharing one tail - in the envelope, in the nested message, or both
    Layout { hub: Hub, outer: crate::oracle::Layout, inner: crate::oracle::Layout, bare_inner: bool },
    /// a complete, canonical hub message wrapped canonically once or twice more (`wraps` bit k: wrapper k is SendToHub,
    /// else ReceiveFromHub; `twice`): every layer is well-formed, but a wrapper may only hold a transfer or a deployment
    Rewrapped { hub: Hub, wraps: u8, twice: bool },
}

fn text() -> impl Strategy<Value = Text> {
    prop_oneof![
        2 => Just(Text::Utf8(String::new())),
        6 => "[ -~]{1,40}".prop_map(Text::Utf8),
        4 => any::<String>().prop_map(|s| Text::Utf8(s.chars().take(48).collect())),
        2 => "[a-z]{31,33}".prop_map(Text::Utf8),
        // long strings around plausible buffer sizes
        1 => (prop::sample::select(vec![63usize, 64, 65, 127, 128, 129, 255, 256, 257, 300, 511, 512, 513, 1023, 1024, 1025, 4096, 5000]), any::<bool>())
            .prop_map(|(n, multi)| Text::Utf8(if multi { "é".repeat(n / 2) + if n % 2 == 1 { "a" } else { "" } } else { "x".repeat(n) })),
        1 => (0u8..40, any::<u64>()).prop_map(|(n, s)| Text::Invalid(n, s)),
    ]
}

fn blob() -> impl Strategy<Value = Blob> {
    (prop_oneof![3 => prop::sample::select(vec![0u16, 1, 20, 31, 32, 33, 63, 64, 65]), 3 => 0u16..100, 1 => 100u16..300], any::<u64>())
        .prop_map(|(len, seed)| Blob { len, seed })
}

fn amount() -> impl Strategy<Value = Amount> {
    prop_oneof![Just(Amount::Zero), Just(Amount::One), Just(Amount::Pow64), Just(Amount::Max), any::<u64>().prop_map(Amount::Rand), any::<u64>().prop_map(Amount::RandHigh)]
}

fn inner() -> impl Strategy<Value = Inner> {
    prop_oneof![
        (any::<u8>(), blob(), blob(), amount(), crate::engine::opt_of(blob())).prop_map(|(token, src, dst, amount, data)| Inner::Transfer { token, src, dst, amount, data }),
        (any::<u8>(), text(), text(), prop_oneof![Just(0u8), Just(7), Just(18), Just(255), any::<u8>()], crate::engine::opt_of(blob()))
            .prop_map(|(token, name, symbol, decimals, minter)| Inner::Deploy { token, name, symbol, decimals, minter }),
    ]
}

fn hub() -> impl Strategy<Value = Hub> {
    (any::<bool>(), text(), inner()).prop_map(|(send, chain, inner)| Hub { send, chain, inner })
}

fn layout() -> impl Strategy<Value = crate::oracle::Layout> {
    (prop_oneof![2 => Just(0u8), 3 => 1u8..6], prop_oneof![3 => Just(0u8), 1 => 1u8..4], prop_oneof![4 => Just(false), 1 => Just(true)]).prop_map(|(order, gap, share)| crate::oracle::Layout { order, gap, share })
}

fn special() -> impl Strategy<Value = Special> {
    prop_oneof![
        Just(Special::Zero),
        Just(Special::Five),
        Just(Special::Two),
        Just(Special::Pow127),
        Just(Special::Pow128),
        Just(Special::AllOnes),
        Just(Special::U32Max),
        Just(Special::U32MaxPlus1),
        Just(Special::Pow63),
        Just(Special::U64Max),
        Just(Special::U64MaxMinus31),
        (0u16..1024).prop_map(Special::Small),
    ]
}

pub fn mutation() -> impl Strategy<Value = Mutation> {
    prop_oneof![
        3 => any::<u32>().prop_map(Mutation::BitFlip),
        4 => (0u16..64, special()).prop_map(|(i, s)| Mutation::WordSet(i, s)),
        4 => (0u16..64, prop_oneof![Just(1i16), Just(-1), Just(32), Just(-32), Just(31), -64i16..64]).prop_map(|(i, d)| Mutation::WordAdd(i, d)),
        2 => (1u16..100).prop_map(Mutation::Truncate),
        2 => prop_oneof![Just(1u16), Just(31), Just(32), Just(64)].prop_map(Mutation::AppendZeros),
        1 => any::<u8>().prop_map(Mutation::AppendByte),
        2 => any::<u8>().prop_map(Mutation::DirtyTail),
        2 => (0u16..64, 0u8..24).prop_map(|(i, b)| Mutation::DirtyHigh(i, b)),
    ]
}

pub fn apply(b: &mut Vec<u8>, m: &Mutation) {
    let words = b.len() / 32;
    match m {
        Mutation::None => {}
        Mutation::BitFlip(i) => {
            if !b.is_empty() {
                let bit = *i as usize % (b.len() * 8);
                b[bit / 8] ^= 1 << (bit % 8);
            }
        }
        Mutation::WordSet(i, s) => {
            if words > 0 {
                let w = *i as usize % words;
                b[w * 32..w * 32 + 32].copy_from_slice(&s.word());
            }
        }
        Mutation::WordAdd(i, d) => {
            if words > 0 {
                let w = *i as usize % words;
                let mut v = u64::from_be_bytes(b[w * 32 + 24..w * 32 + 32].try_into().unwrap());
                v = v.wrapping_add(*d as i64 as u64);
                b[w * 32 + 24..w * 32 + 32].copy_from_slice(&v.to_be_bytes());
            }
        }
        Mutation::Truncate(n) => {
            let k = (*n as usize).min(b.len());
            b.truncate(b.len() - k);
        }
        Mutation::AppendZeros(n) => b.extend(std::iter::repeat(0u8).take(*n as usize)),
        Mutation::AppendByte(x) => b.push(*x),
        Mutation::DirtyTail(k) => {
            if b.len() >= 32 {
                let i = b.len() - 1 - (*k as usize % 31);
                b[i] |= 0x41;
            }
        }
        Mutation::DirtyHigh(i, k) => {
            if words > 0 {
                let w = *i as usize % words;
                b[w * 32 + *k as usize] |= 0x01;
            }
        }
    }
}

fn inner_to_amsg(i: &Inner) -> AMsg {
    match i {
        Inner::Transfer { token, src, dst, amount, data } => AMsg::Transfer {
            token_id: h32("tok", *token as u64),
            source: src.bytes(),
            dest: dst.bytes(),
            amount: word_u128(amount.val() as u128),
            data: data.as_ref().map(|d| d.bytes()).unwrap_or_default(),
        },
        Inner::Deploy { token, name, symbol, decimals, minter } => AMsg::Deploy {
            token_id: h32("tok", *token as u64),
            name: name.bytes(),
            symbol: symbol.bytes(),
            decimals: word_u64(*decimals as u64),
            minter: minter.as_ref().map(|d| d.bytes()).unwrap_or_default(),
        },
    }
}

fn inner_valid_utf8(i: &Inner) -> bool {
    match i {
        Inner::Transfer { .. } => true,
        Inner::Deploy { name, symbol, .. } => name.valid() && symbol.valid(),
    }
}

fn inner_has_some_empty(i: &Inner) -> bool {
    match i {
        Inner::Transfer { data, .. } => data.as_ref().map(|d| d.len == 0).unwrap_or(false),
        Inner::Deploy { minter, .. } => minter.as_ref().map(|d| d.len == 0).unwrap_or(false),
    }
}

fn hub_encode(h: &Hub) -> Vec<u8> {
    let inner = inner_to_amsg(&h.inner).encode();
    if h.send {
        AHub::Send { chain: h.chain.bytes(), inner }.encode()
    } else {
        AHub::Receive { chain: h.chain.bytes(), inner }.encode()
    }
}

fn to_repo_inner(env: &Env, i: &Inner, empty_as_some: bool) -> Message {
    // Some(empty) is only produced where the case itself says Some with length 0
    let keep_some = empty_as_some || inner_has_some_empty(i);
    let m = inner_to_amsg(i);
    let mut msg = from_amsg(env, &m, keep_some);
    // from_amsg turns *every* empty optional into Some when keep_some; restrict to the case's own shape
    match (&mut msg, i) {
        (Message::InterchainTransfer(t), Inner::Transfer { data, .. }) => {
            if data.is_none() && !empty_as_some {
                t.data = None;
            }
        }
        (Message::DeployInterchainToken(d), Inner::Deploy { minter, .. }) => {
            if minter.is_none() && !empty_as_some {
                d.minter = None;
            }
        }
        _ => {}
    }
    msg
}

fn check_structured_inner(env: &Env, i: &Inner, empty_as_some: bool, cx: &mut Cx) -> Result<(), String> {
    let msg = to_repo_inner(env, i, empty_as_some);
    let want = inner_to_amsg(i).encode();
    let r = crate::engine::catch(|| msg.clone().abi_encode(env));
    if !inner_valid_utf8(i) {
        // not a representable message: the statement does not say what encoding it does (today: an error)
        cx.label("invalid_utf8_text");
        cx.count("either");
        return Ok(());
    }
    cx.count("must_succeed");
    let enc = match r {
        Ok(Ok(b)) => b,
        Ok(Err(e)) => return Err(format!("encoding a representable message failed: {:?}", e)),
        Err(p) => return Err(format!("encoding a representable message panicked: {}", p)),
    };
    ensure_p!(enc.to_alloc_vec() == want, "Message::abi_encode differs from the independent ABI encoder for {:?}", i);
    let dec = crate::engine::catch(|| Message::abi_decode(env, &enc)).map_err(|p| format!("decoding our own encoding panicked: {}", p))?;
    let dec = dec.map_err(|e| format!("decoding an encoding produced by abi_encode failed: {:?}", e))?;
    // round trip up to "empty optional reads back absent"
    let normal = to_repo_inner(env, &normalise(i), false);
    ensure_p!(dec == normal, "round trip changed the message: {:?} -> {:?}", normal, dec);
    Ok(())
}

fn normalise(i: &Inner) -> Inner {
    match i.clone() {
        Inner::Transfer { token, src, dst, amount, data } => Inner::Transfer { token, src, dst, amount, data: data.filter(|d| d.len > 0) },
        Inner::Deploy { token, name, symbol, decimals, minter } => Inner::Deploy { token, name, symbol, decimals, minter: minter.filter(|d| d.len > 0) },
    }
}

impl Property for C10 {
    type Case = Case;
    fn id(&self) -> &'static str {
        "C10"
    }
    fn rule(&self) -> &'static str {
        "proptest: (a) structured hub messages (both wrappers x both inner kinds; ids; addresses/data of length 0,1,20,31,32,33,..300 with pseudo-random, all-zero or all-0xff content; names/symbols/chains from arbitrary Unicode strings, printable ASCII, 31-33 byte strings, long strings of 63..5000 bytes around powers of two (ASCII and two-byte characters), and invalid UTF-8; amounts {0,1,2^64,2^127-1,random}; decimals 0..255; optional bytes absent / empty / present): abi_encode must equal the harness's own head/tail ABI encoder byte for byte and decode back to the same message; (b) byte strings: uniformly random (optionally with a valid type tag in word 0) and valid encodings with one or two mutations (bit flip, word replaced by special values incl. 2^127, 2^128, 2^32, 2^63, 2^64-32.., offset/length +-k, truncation, trailing bytes, dirty padding / high bytes): no panic, abi_decode succeeds iff the harness's strict canonical decoder accepts, same message, re-encoding reproduces the input. thorough additionally runs a libFuzzer campaign with the same oracle in-target. non-trivial = structured messages, and byte strings of >= 32 bytes whose first word is a valid type tag (they reach the struct decoder); distinct by Debug hash (e) well-formed hub envelopes around a nested message that was mutated before wrapping, or replaced by a blob of 0..69 bytes (shorter than the type word, all-zero, random, with a valid type tag): same oracle as (c) - the envelope alone being canonical must not make a nested non-message acceptable, nor crash the decoder (f) the same messages in well-formed but non-canonical layouts (tails of the dynamic fields in another order, zero words between head and tails, equal fields sharing one tail - in the envelope, in the nested message, or both): same oracle as (c) (g) canonical hub messages wrapped canonically once or twice more: a wrapper may only hold a transfer or a deployment, same oracle as (c)."
    }
    fn assumptions(&self) -> Vec<&'static str> {
        vec!["native 64-bit usize (the dependency's overflow behaviour differs on wasm32)"]
    }
    fn cases(&self, tier: Tier) -> u64 {
        tier.pick(200000, 3000000)
    }
    fn strategy(&self, _tier: Tier) -> BoxedStrategy<Case> {
        prop_oneof![
            3 => (hub(), any::<bool>()).prop_map(|(hub, empty_as_some)| Case::Msg { hub, empty_as_some }),
            1 => (inner(), any::<bool>()).prop_map(|(inner, empty_as_some)| Case::InnerMsg { inner, empty_as_some }),
            2 => (prop_oneof![0u16..40, 32u16..700], any::<u64>(), crate::engine::opt_of(0u8..6)).prop_map(|(len, seed, t)| Case::Random { len, seed, first_word_tag: t }),
            6 => (hub(), any::<bool>(), mutation(), prop_oneof![2 => Just(Mutation::None), 1 => mutation()]).prop_map(|(hub, inner_only, m1, m2)| Case::Mutated { hub, inner_only, m1, m2 }),
            3 => (hub(), mutation(), prop_oneof![2 => Just(Mutation::None), 1 => mutation()], prop_oneof![3 => Just(None), 1 => (0u8..70, any::<u64>()).prop_map(Some)])
                .prop_map(|(hub, m1, m2, short)| Case::Nested { hub, m1, m2, short }),
            3 => (hub(), layout(), layout(), prop_oneof![3 => Just(false), 1 => Just(true)]).prop_map(|(hub, outer, inner, bare_inner)| Case::Layout { hub, outer, inner, bare_inner }),
            1 => (hub(), 0u8..4, any::<bool>()).prop_map(|(hub, wraps, twice)| Case::Rewrapped { hub, wraps, twice }),
        ]
        .boxed()
    }
    fn fixed_cases(&self, _tier: Tier) -> Vec<Case> {
        // committed regression inputs (hex) are read from corpus/C10 by the engine; a few hand-made ones here
        let mut v = vec![];
        let m = AMsg::Transfer { token_id: [1; 32], source: vec![1], dest: vec![2], amount: word_u128(1u128 << 127), data: vec![] };
        v.push(Case::Raw { hex: hex::encode(m.encode()) });
        let m = AMsg::Deploy { token_id: [1; 32], name: b"n".to_vec(), symbol: b"s".to_vec(), decimals: word_u64(256), minter: vec![] };
        v.push(Case::Raw { hex: hex::encode(m.encode()) });
        v.push(Case::Raw { hex: hex::encode([0u8; 32]) });
        v.push(Case::Raw { hex: String::new() });
        v
    }

    fn run(&self, case: &Case, cx: &mut Cx) -> Result<(), String> {
        let env = new_env();
        let bytes: Vec<u8> = match case {
            Case::Msg { hub, empty_as_some } => {
                cx.nontrivial();
                cx.label(if hub.send { "structured_send_to_hub" } else { "structured_receive_from_hub" });
                cx.label(match hub.inner {
                    Inner::Transfer { .. } => "inner_transfer",
                    Inner::Deploy { .. } => "inner_deploy",
                });
                check_structured_inner(&env, &hub.inner, *empty_as_some, cx)?;
                let inner = to_repo_inner(&env, &hub.inner, *empty_as_some);
                let chain = SString::from_bytes(&env, &hub.chain.bytes());
                let msg = if hub.send { HubMessage::SendToHub { destination_chain: chain, message: inner } } else { HubMessage::ReceiveFromHub { source_chain: chain, message: inner } };
                let r = crate::engine::catch(|| msg.clone().abi_encode(&env));
                let valid = hub.chain.valid() && inner_valid_utf8(&hub.inner);
                if !valid {
                    cx.label("invalid_utf8_text");
                    return Ok(());
                }
                let enc = match r {
                    Ok(Ok(b)) => b.to_alloc_vec(),
                    Ok(Err(e)) => return Err(format!("encoding a representable hub message failed: {:?}", e)),
                    Err(p) => return Err(format!("encoding a representable hub message panicked: {}", p)),
                };
                let want = hub_encode(hub);
                ensure_p!(enc == want, "HubMessage::abi_encode differs from the independent ABI encoder for {:?}", hub);
                want
            }
            Case::InnerMsg { inner, empty_as_some } => {
                cx.nontrivial();
                cx.label("structured_inner_only");
                check_structured_inner(&env, inner, *empty_as_some, cx)?;
                if !inner_valid_utf8(inner) {
                    return Ok(());
                }
                inner_to_amsg(inner).encode()
            }
            Case::Random { len, seed, first_word_tag } => {
                let mut b = seeded_bytes(*seed, *len as usize);
                if let (Some(t), true) = (first_word_tag, b.len() >= 32) {
                    b[..32].copy_from_slice(&word_u64(*t as u64));
                    cx.nontrivial();
                    cx.label("random_with_type_tag");
                } else {
                    cx.label("random_bytes");
                }
                b
            }
            Case::Mutated { hub, inner_only, m1, m2 } => {
                let mut b = if *inner_only { inner_to_amsg(&hub.inner).encode() } else { hub_encode(hub) };
                apply(&mut b, m1);
                apply(&mut b, m2);
                cx.label(&format!("mut:{}", format!("{:?}", m1).split('(').next().unwrap()));
                if b.len() >= 32 && b[..31].iter().all(|x| *x == 0) && b[31] < 5 {
                    cx.nontrivial();
                }
                b
            }
            Case::Nested { hub, m1, m2, short } => {
                let mut inner = inner_to_amsg(&hub.inner).encode();
                match short {
                    Some((n, seed)) => {
                        inner = if seed % 3 == 0 { vec![0u8; *n as usize] } else { seeded_bytes(*seed, *n as usize) };
                        if *n >= 32 && seed % 2 == 0 {
                            inner[..32].copy_from_slice(&word_u64(seed % 5));
                        }
                        cx.label(if *n < 32 { "nested_inner_shorter_than_a_word" } else { "nested_inner_short_blob" });
                    }
                    None => {
                        apply(&mut inner, m1);
                        apply(&mut inner, m2);
                        cx.label(&format!("nested_mut:{}", format!("{:?}", m1).split('(').next().unwrap()));
                    }
                }
                cx.nontrivial();
                if hub.send {
                    AHub::Send { chain: hub.chain.bytes(), inner }.encode()
                } else {
                    AHub::Receive { chain: hub.chain.bytes(), inner }.encode()
                }
            }
            Case::Rewrapped { hub, wraps, twice } => {
                let mut b = hub_encode(hub);
                for k in 0..(1 + *twice as u8) {
                    b = if wraps >> k & 1 == 1 { AHub::Send { chain: hub.chain.bytes(), inner: b }.encode() } else { AHub::Receive { chain: hub.chain.bytes(), inner: b }.encode() };
                }
                cx.nontrivial();
                cx.label("hub_message_wrapped_again");
                b
            }
            Case::Layout { hub, outer, inner, bare_inner } => {
                let inner_bytes = inner_to_amsg(&hub.inner).encode_layout(*inner);
                let canonical_inner = inner_bytes == inner_to_amsg(&hub.inner).encode();
                let b = if *bare_inner {
                    inner_bytes
                } else if hub.send {
                    AHub::Send { chain: hub.chain.bytes(), inner: inner_bytes }.encode_layout(*outer)
                } else {
                    AHub::Receive { chain: hub.chain.bytes(), inner: inner_bytes }.encode_layout(*outer)
                };
                if b == hub_encode(hub) || (*bare_inner && canonical_inner) {
                    cx.label("layout_canonical_after_all");
                } else {
                    cx.nontrivial();
                    cx.label(if *bare_inner || !canonical_inner { "layout_noncanonical_nested_message" } else { "layout_noncanonical_envelope" });
                    if outer.order % 2 == 1 && !*bare_inner {
                        cx.label("layout_envelope_tails_swapped");
                    }
                }
                b
            }
            Case::Raw { hex } => {
                cx.nontrivial();
                hex::decode(hex).map_err(|e| format!("bad hex in case: {}", e))?
            }
        };
        let _ = take_last_panic();
        let (outer, inner) = check_bytes(&env, &bytes, &|| take_last_panic())?;
        for c in [outer, inner] {
            match c {
                BytesClass::Accepted => cx.count("bytes_accepted_by_both"),
                BytesClass::Rejected => cx.count("bytes_rejected_by_both"),
                BytesClass::KnownPanic => {
                    cx.known_or_fail(KNOWN_PANIC_KEY, format!("abi_decode panics (attempt to add with overflow in alloy-sol-types abi/decoder.rs) on input {}", hex::encode(&bytes)))?;
                }
            }
        }
        Ok(())
    }
}

/// Valid encodings used as the fuzz campaign's starting corpus.
pub fn seed_inputs() -> Vec<Vec<u8>> {
    let b = |len: u16, seed: u64| Blob { len, seed };
    let inners = vec![
        Inner::Transfer { token: 1, src: b(20, 1), dst: b(32, 2), amount: Amount::One, data: None },
        Inner::Transfer { token: 2, src: b(0, 1), dst: b(33, 2), amount: Amount::Max, data: Some(b(65, 3)) },
        Inner::Transfer { token: 3, src: b(1, 1), dst: b(1, 2), amount: Amount::Pow64, data: Some(b(1, 3)) },
        Inner::Deploy { token: 4, name: Text::Utf8("Token".into()), symbol: Text::Utf8("TKN".into()), decimals: 18, minter: None },
        Inner::Deploy { token: 5, name: Text::Utf8("Ünï©ode 漢字".into()), symbol: Text::Utf8("€".into()), decimals: 255, minter: Some(b(32, 9)) },
        Inner::Deploy { token: 6, name: Text::Utf8("".into()), symbol: Text::Utf8("".into()), decimals: 0, minter: Some(b(44, 9)) },
        Inner::Deploy { token: 7, name: Text::Utf8("Z".into()), symbol: Text::Utf8("Z".into()), decimals: 1, minter: Some(b(20, 8)) },
        Inner::Transfer { token: 8, src: b(20, 16), dst: b(20, 9), amount: Amount::One, data: Some(b(20, 0)) },
    ];
    let mut out = vec![];
    for i in &inners {
        out.push(inner_to_amsg(i).encode());
        for send in [true, false] {
            out.push(hub_encode(&Hub { send, chain: Text::Utf8("ethereum".into()), inner: i.clone() }));
        }
    }
    out.push(hub_encode(&Hub { send: false, chain: Text::Utf8("".into()), inner: inners[0].clone() }));
    // well-formed but non-canonical layouts (tails swapped / gap / shared)
    for (o, g, sh) in [(1u8, 0u8, false), (0, 1, false), (0, 0, true), (3, 2, false)] {
        let l = crate::oracle::Layout { order: o, gap: g, share: sh };
        let canon = crate::oracle::Layout { order: 0, gap: 0, share: false };
        out.push(AHub::Receive { chain: b"ethereum".to_vec(), inner: inner_to_amsg(&inners[0]).encode() }.encode_layout(l));
        out.push(AHub::Send { chain: b"ethereum".to_vec(), inner: inner_to_amsg(&inners[4]).encode_layout(l) }.encode_layout(canon));
        out.push(inner_to_amsg(&inners[7]).encode_layout(l));
    }
    // well-formed envelopes around inner blobs that are not messages
    for n in [0usize, 1, 31, 32, 33, 64] {
        out.push(AHub::Receive { chain: b"ethereum".to_vec(), inner: vec![0u8; n] }.encode());
        out.push(AHub::Send { chain: b"ethereum".to_vec(), inner: vec![0xffu8; n] }.encode());
    }
    out
}
