//! C10 core oracle, shared by the proptest check and the libFuzzer target.
//! Depends only on `oracle` and the code under test.

use crate::oracle::{decode_hub_canonical, decode_msg_canonical, word_u128, word_u64, AHub, AMsg};
use interchain_token_service::types::{DeployInterchainToken, HubMessage, InterchainTransfer, Message};
use soroban_sdk::{Bytes, BytesN, Env, String as SString};
use std::panic::{self, AssertUnwindSafe};

pub const KNOWN_PANIC_KEY: &str = "alloy-decoder-add-overflow";

fn sstring_bytes(s: &SString) -> Vec<u8> {
    let mut v = vec![0u8; s.len() as usize];
    s.copy_into_slice(&mut v);
    v
}

pub fn to_amsg(m: &Message) -> AMsg {
    match m {
        Message::InterchainTransfer(t) => AMsg::Transfer {
            token_id: t.token_id.to_array(),
            source: t.source_address.to_alloc_vec(),
            dest: t.destination_address.to_alloc_vec(),
            amount: word_u128(t.amount as u128),
            data: t.data.as_ref().map(|d| d.to_alloc_vec()).unwrap_or_default(),
        },
        Message::DeployInterchainToken(d) => AMsg::Deploy {
            token_id: d.token_id.to_array(),
            name: sstring_bytes(&d.name),
            symbol: sstring_bytes(&d.symbol),
            decimals: word_u64(d.decimals as u64),
            minter: d.minter.as_ref().map(|d| d.to_alloc_vec()).unwrap_or_default(),
        },
        // a message kind the pinned tree does not have (the tree under test may have grown one): a value no honest transfer
        // or deployment equals, so that comparisons with the reference codec fail instead of the harness failing to build
        #[allow(unreachable_patterns)]
        _ => AMsg::Transfer { token_id: [0xEE; 32], source: b"message-kind-unknown-to-the-reference-codec".to_vec(), dest: vec![], amount: [0xEE; 32], data: vec![] },
    }
}

pub fn to_ahub(h: &HubMessage) -> (AHub, AMsg) {
    match h {
        HubMessage::SendToHub { destination_chain, message } => {
            let inner = to_amsg(message);
            (AHub::Send { chain: sstring_bytes(destination_chain), inner: inner.encode() }, inner)
        }
        HubMessage::ReceiveFromHub { source_chain, message } => {
            let inner = to_amsg(message);
            (AHub::Receive { chain: sstring_bytes(source_chain), inner: inner.encode() }, inner)
        }
        #[allow(unreachable_patterns)]
        _ => {
            let inner = AMsg::Transfer { token_id: [0xEE; 32], source: b"envelope-kind-unknown-to-the-reference-codec".to_vec(), dest: vec![], amount: [0xEE; 32], data: vec![] };
            (AHub::Receive { chain: b"?".to_vec(), inner: inner.encode() }, inner)
        }
    }
}

fn has_empty_optional(m: &Message) -> bool {
    match m {
        Message::InterchainTransfer(t) => t.data.as_ref().map(|d| d.is_empty()).unwrap_or(false),
        Message::DeployInterchainToken(d) => d.minter.as_ref().map(|d| d.is_empty()).unwrap_or(false),
        #[allow(unreachable_patterns)]
        _ => false,
    }
}

pub fn from_amsg(env: &Env, m: &AMsg, empty_as_some: bool) -> Message {
    let opt = |v: &Vec<u8>| {
        if v.is_empty() && !empty_as_some {
            None
        } else {
            Some(Bytes::from_slice(env, v))
        }
    };
    match m {
        AMsg::Transfer { token_id, source, dest, amount, data } => Message::InterchainTransfer(InterchainTransfer {
            token_id: BytesN::from_array(env, token_id),
            source_address: Bytes::from_slice(env, source),
            destination_address: Bytes::from_slice(env, dest),
            amount: u128::from_be_bytes(amount[16..].try_into().unwrap()) as i128,
            data: opt(data),
        }),
        AMsg::Deploy { token_id, name, symbol, decimals, minter } => Message::DeployInterchainToken(DeployInterchainToken {
            token_id: BytesN::from_array(env, token_id),
            name: SString::from_bytes(env, name),
            symbol: SString::from_bytes(env, symbol),
            decimals: decimals[31],
            minter: opt(minter),
        }),
    }
}

#[derive(Debug, Clone, Copy, PartialEq, Eq)]
pub enum BytesClass {
    /// both decoders reject
    Rejected,
    /// both accept, same message, re-encoding reproduces the input
    Accepted,
    /// the dependency's known overflow panic (known finding)
    KnownPanic,
}

/// Oracle (iii): arbitrary bytes through HubMessage::abi_decode and Message::abi_decode.
/// Err(..) = violation text. `panic_info` supplies the last panic's "message @ file:line".
pub fn check_bytes(env: &Env, b: &[u8], last_panic: &dyn Fn() -> Option<String>) -> Result<(BytesClass, BytesClass), String> {
    let sb = Bytes::from_slice(env, b);
    // outer
    let want_hub = decode_hub_canonical(b);
    let got = panic::catch_unwind(AssertUnwindSafe(|| HubMessage::abi_decode(env, &sb)));
    let outer = match got {
        Err(_) => {
            let info = last_panic().unwrap_or_default();
            if is_known_panic(&info) {
                BytesClass::KnownPanic
            } else {
                return Err(format!("HubMessage::abi_decode panicked on {} bytes: {}", b.len(), info));
            }
        }
        Ok(Err(_)) => {
            if let Some((h, _)) = want_hub {
                return Err(format!("HubMessage::abi_decode rejected a canonical encoding ({:?})", h));
            }
            BytesClass::Rejected
        }
        Ok(Ok(h)) => {
            let (gh, gm) = to_ahub(&h);
            match want_hub {
                None => return Err(format!("HubMessage::abi_decode accepted a non-canonical / out-of-range input of {} bytes as {:?}", b.len(), h)),
                Some((wh, wm)) => {
                    if gh != wh || gm != wm {
                        return Err(format!("HubMessage::abi_decode misdecoded: got {:?}, canonical decoder says {:?} / {:?}", h, wh, wm));
                    }
                }
            }
            let inner_has_empty = match &h {
                HubMessage::SendToHub { message, .. } | HubMessage::ReceiveFromHub { message, .. } => has_empty_optional(message),
            };
            if inner_has_empty {
                return Err("decoded an empty optional byte field as present".into());
            }
            match panic::catch_unwind(AssertUnwindSafe(|| h.clone().abi_encode(env))) {
                Ok(Ok(re)) => {
                    if re.to_alloc_vec() != b {
                        return Err("re-encoding an accepted hub message does not reproduce the input".into());
                    }
                }
                other => return Err(format!("re-encoding an accepted hub message failed: {:?}", other.map(|r| r.map(|_| ())))),
            }
            BytesClass::Accepted
        }
    };
    // inner decoder on the same bytes
    let want_msg = decode_msg_canonical(b);
    let got = panic::catch_unwind(AssertUnwindSafe(|| Message::abi_decode(env, &sb)));
    let inner = match got {
        Err(_) => {
            let info = last_panic().unwrap_or_default();
            if is_known_panic(&info) {
                BytesClass::KnownPanic
            } else {
                return Err(format!("Message::abi_decode panicked on {} bytes: {}", b.len(), info));
            }
        }
        Ok(Err(_)) => {
            if let Some(m) = want_msg {
                return Err(format!("Message::abi_decode rejected a canonical encoding ({:?})", m));
            }
            BytesClass::Rejected
        }
        Ok(Ok(m)) => {
            match want_msg {
                None => return Err(format!("Message::abi_decode accepted a non-canonical / out-of-range input of {} bytes as {:?}", b.len(), m)),
                Some(wm) => {
                    if to_amsg(&m) != wm {
                        return Err(format!("Message::abi_decode misdecoded: got {:?}, canonical decoder says {:?}", m, wm));
                    }
                }
            }
            if has_empty_optional(&m) {
                return Err("decoded an empty optional byte field as present".into());
            }
            match panic::catch_unwind(AssertUnwindSafe(|| m.clone().abi_encode(env))) {
                Ok(Ok(re)) => {
                    if re.to_alloc_vec() != b {
                        return Err("re-encoding an accepted message does not reproduce the input".into());
                    }
                }
                other => return Err(format!("re-encoding an accepted message failed: {:?}", other.map(|r| r.map(|_| ())))),
            }
            BytesClass::Accepted
        }
    };
    Ok((outer, inner))
}

pub fn is_known_panic(info: &str) -> bool {
    info.contains("attempt to add with overflow") && info.contains("alloy-sol-types-0.8.14/src/abi/decoder.rs:173")
}
