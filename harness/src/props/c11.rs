//! C11 — token ids are deterministic, write-once; deployed tokens stay ITS-mintable.

use crate::engine::{Cx, Property, Tier};
use crate::ensure_p;
use crate::itsw::*;
use crate::oracle::{contract_id_from_address, word_u128, word_u64, AMsg, Sv};
use crate::world::*;
use interchain_token_service::types::TokenManagerType;
use interchain_token_service::InterchainTokenServiceClient;
use proptest::prelude::*;
#[allow(unused_imports)]
use crate::prop_oneof;
use serde::{Deserialize, Serialize};
use soroban_sdk::{Address, BytesN, Env};
use std::collections::BTreeMap;

pub struct C11;

const HUB_ADDR: &str = "hub-address";
/// the two services' own chain names (chosen by the length of the history, so that saved cases keep their format):
/// two of the three pairs differ only in letter case - ids and addresses must still be separated, and must follow the
/// name as configured
const CHAIN_NAME_PAIRS: [[&str; 2]; 3] = [["stellar", "stellar-2"], ["Stellar", "stellar"], ["Stellar-Testnet", "stellar-testnet"]];

#[derive(Clone, Copy, Debug, Serialize, Deserialize, PartialEq, Eq)]
pub enum MinterSel {
    None,
    ThirdParty,
    Deployer,
    Service,
    /// (remote deploy messages only; a local deployment treats it as "none") the message's minter field is not empty
    /// but is not the encoding of an address either: 0 well-formed XDR of a string (the third party's address spelled
    /// out), 1 well-formed XDR of a number, 2 the third party's address encoding cut short
    NotAnAddress(u8),
}

#[derive(Clone, Copy, Debug, Serialize, Deserialize, PartialEq, Eq)]
pub enum Meta {
    Plain,
    MultiByte,
    Decimals0,
    Decimals255,
    EmptyName,
    EmptySymbol,
    Decimals256,
    /// names padded with NULs / surrounded by spaces: non-empty, must be kept byte for byte
    PaddedNul,
    Spaced,
}

#[derive(Clone, Copy, Debug, Serialize, Deserialize, PartialEq, Eq)]
pub enum Supply {
    Negative,
    Zero,
    One,
    Huge,
}

impl Supply {
    fn val(self) -> i128 {
        match self {
            Supply::Negative => -5,
            Supply::Zero => 0,
            Supply::One => 1,
            Supply::Huge => 1_000_000_000_000_000_000_000_000_000_000,
        }
    }
}

#[derive(Clone, Debug, Serialize, Deserialize, PartialEq, Eq)]
pub enum Op {
    DeployLocal { its: u8, deployer: u8, salt: u8, meta: Meta, supply: Supply, minter: MinterSel },
    RegisterCanonical { its: u8, asset: u8 },
    /// remote deploy message; `collide` = reuse the k-th id known on that service, else a fresh id
    RemoteDeploy { its: u8, collide: Option<u8>, fresh: u8, meta: Meta, minter: MinterSel },
    /// the ledger advances (the registry must not decay with time)
    AdvanceDays(u8),
    /// a remote-deployment request through the canonical entry point for one of the canonical candidates, registered
    /// or not (outcome is C18's subject; here: whatever it answers, no registered id may change)
    RequestRemoteCanonical { its: u8, asset: u8 },
    /// ... through the (deployer, salt) entry point
    RequestRemoteInterchain { its: u8, deployer: u8, salt: u8 },
    /// the owner upgrades one of the services and completes the migration: the registry is carried over
    UpgradeAndMigrate { its: u8 },
    /// a holder of the k-th token deployed on that service sends 1 out, then an approved inbound transfer of 5 arrives:
    /// the service must still be able to mint for inbound transfers, whatever went out before
    OutboundThenLargerInbound { its: u8, k: u8 },
}

#[derive(Clone, Debug, Serialize, Deserialize)]
pub struct Case {
    pub ops: Vec<Op>,
}

fn meta() -> impl Strategy<Value = Meta> {
    prop_oneof![
        4 => Just(Meta::Plain),
        2 => Just(Meta::MultiByte),
        1 => Just(Meta::Decimals0),
        1 => Just(Meta::Decimals255),
        1 => Just(Meta::EmptyName),
        1 => Just(Meta::EmptySymbol),
        1 => Just(Meta::Decimals256),
        1 => Just(Meta::PaddedNul),
        1 => Just(Meta::Spaced),
    ]
}

fn meta_vals(m: Meta) -> (Vec<u8>, Vec<u8>, u32) {
    match m {
        Meta::Plain => (b"Token".to_vec(), b"TKN".to_vec(), 7),
        Meta::MultiByte => ("Tökén 漢字 🚀".as_bytes().to_vec(), "€".as_bytes().to_vec(), 18),
        Meta::Decimals0 => (b"Zero".to_vec(), b"Z".to_vec(), 0),
        Meta::Decimals255 => (b"Max".to_vec(), b"M".to_vec(), 255),
        Meta::EmptyName => (vec![], b"S".to_vec(), 7),
        Meta::EmptySymbol => (b"N".to_vec(), vec![], 7),
        Meta::Decimals256 => (b"Over".to_vec(), b"O".to_vec(), 256),
        Meta::PaddedNul => (b"Pad\0\0".to_vec(), b"\0".to_vec(), 7),
        Meta::Spaced => (b" Sp ".to_vec(), b"S\n".to_vec(), 7),
    }
}

fn meta_valid(m: Meta) -> bool {
    !matches!(m, Meta::EmptyName | Meta::EmptySymbol | Meta::Decimals256)
}

fn minter_sel() -> impl Strategy<Value = MinterSel> {
    prop_oneof![3 => Just(MinterSel::None), 3 => Just(MinterSel::ThirdParty), 1 => Just(MinterSel::Deployer), 1 => Just(MinterSel::Service), 1 => (0u8..3).prop_map(MinterSel::NotAnAddress)]
}

fn supply() -> impl Strategy<Value = Supply> {
    prop_oneof![1 => Just(Supply::Negative), 3 => Just(Supply::Zero), 3 => Just(Supply::One), 2 => Just(Supply::Huge)]
}

fn op() -> impl Strategy<Value = Op> {
    prop_oneof![
        5 => (0u8..2, 0u8..2, 0u8..2, meta(), supply(), minter_sel()).prop_map(|(its, deployer, salt, meta, supply, minter)| Op::DeployLocal { its, deployer, salt, meta, supply, minter }),
        3 => (0u8..2, 0u8..4).prop_map(|(its, asset)| Op::RegisterCanonical { its, asset }),
        3 => (0u8..2, crate::engine::opt_of(0u8..6), 0u8..6, meta(), minter_sel()).prop_map(|(its, collide, fresh, meta, minter)| Op::RemoteDeploy { its, collide, fresh, meta, minter }),
        1 => (1u8..60).prop_map(Op::AdvanceDays),
        1 => (0u8..2, 0u8..4).prop_map(|(its, asset)| Op::RequestRemoteCanonical { its, asset }),
        1 => (0u8..2, 0u8..2, 0u8..2).prop_map(|(its, deployer, salt)| Op::RequestRemoteInterchain { its, deployer, salt }),
        1 => (0u8..2).prop_map(|its| Op::UpgradeAndMigrate { its }),
        2 => (0u8..2, 0u8..6).prop_map(|(its, k)| Op::OutboundThenLargerInbound { its, k }),
    ]
}

#[derive(Clone, Debug, PartialEq, Eq)]
struct Entry {
    addr: Address,
    native: bool,
}

struct Svc<'a> {
    client: InterchainTokenServiceClient<'a>,
    id: Address,
    chain: &'static str,
    reg: BTreeMap<[u8; 32], Entry>,
    order: Vec<[u8; 32]>,
}

fn network_id(env: &Env) -> [u8; 32] {
    env.ledger().network_id().to_array()
}

impl Property for C11 {
    type Case = Case;
    fn id(&self) -> &'static str {
        "C11"
    }
    fn rule(&self) -> &'static str {
        "proptest histories (<=8 quick / <=14 thorough ops) over two ITS instances with different chain names (three pairs: stellar / stellar-2, and two pairs that differ only in letter case: Stellar / stellar, Stellar-Testnet / stellar-testnet) sharing one gateway: local deployments (3 deployers x 3 salts; metadata plain / multi-byte / decimals 0, 255 / invalid; initial supply -5, 0, 1, 10^30; minter none / third party / deployer / the service itself), canonical registrations (2 Stellar assets, a stand-alone interchain token reporting an id of its own, a token the service deployed itself), approved remote deploy messages with fresh or colliding ids (also ids that equal the canonical id of a not-yet-registered candidate), remote-deployment requests through both entry points for registered and unregistered tokens (whatever they answer, the registry must not change), each possibly repeated. Oracle: ids, salts and token addresses equal the harness's own derivation (own Keccak over own XDR; sha256 of the contract-id preimage); registry (address, manager type) write-once per service, colliding operations fail with the ledger snapshot identical; every deployed token reports id and metadata, is owned by the service, minters = {service} + designated minter, deployer balance = max(supply,0); and an approved inbound transfer to each newly deployed token credits the recipient. non-trivial = a collision attempt, or supply > 0, or a minter present; distinct by Debug hash Since rounds 12-13: remote deploy messages may designate a minter that is no address (XDR of a string / a number / a truncated address: must be refused), tokens deployed by remote deploy messages get the inbound-transfer probe too, and the table of minters is read again after the probe (serving a transfer changes no role)."
    }
    fn assumptions(&self) -> Vec<&'static str> {
        vec!["whether a token that is not a plain asset contract may be registered as canonical is not decided by the statement (Either; when it succeeds the id must be the function of chain name and token address)", "local deployment with invalid metadata, with negative supply, or naming the service itself as minter is not decided by the statement (Either; effects checked when it succeeds)"]
    }
    fn cases(&self, tier: Tier) -> u64 {
        tier.pick(4000, 60000)
    }
    fn strategy(&self, tier: Tier) -> BoxedStrategy<Case> {
        proptest::collection::vec(op(), 1..=tier.pick(8usize, 14usize)).prop_map(|ops| Case { ops }).boxed()
    }
    fn fixed_cases(&self, _tier: Tier) -> Vec<Case> {
        let mut v = vec![];
        for supply in [Supply::Negative, Supply::Zero, Supply::One, Supply::Huge] {
            for minter in [MinterSel::None, MinterSel::ThirdParty, MinterSel::Deployer, MinterSel::Service] {
                v.push(Case { ops: vec![Op::DeployLocal { its: 0, deployer: 0, salt: 0, meta: Meta::Plain, supply, minter }, Op::DeployLocal { its: 0, deployer: 0, salt: 0, meta: Meta::Plain, supply, minter }] });
            }
        }
        v.push(Case { ops: vec![Op::RegisterCanonical { its: 0, asset: 0 }, Op::RegisterCanonical { its: 0, asset: 0 }, Op::RegisterCanonical { its: 1, asset: 0 }, Op::RemoteDeploy { its: 0, collide: Some(0), fresh: 0, meta: Meta::Plain, minter: MinterSel::None }] });
        v.push(Case { ops: vec![Op::RemoteDeploy { its: 0, collide: None, fresh: 0, meta: Meta::Plain, minter: MinterSel::ThirdParty }, Op::RemoteDeploy { its: 0, collide: Some(0), fresh: 0, meta: Meta::MultiByte, minter: MinterSel::None }] });
        v
    }

    fn run(&self, case: &Case, cx: &mut Cx) -> Result<(), String> {
        #[allow(non_snake_case)]
        let CHAIN_NAMES = CHAIN_NAME_PAIRS[case.ops.len() % 3];
        cx.label(&format!("service_chain_names_{}_{}", CHAIN_NAMES[0], CHAIN_NAMES[1]));
        let mut w = build_its_world(CHAIN_NAMES[0], HUB_ADDR, 5);
        // the third deployer is the account-kind address carrying the same 32 bytes as the first (contract-kind) one:
        // ids are functions of the whole address
        w.users[2] = kind_twin(&w.env, &w.users[0]);
        let env = &w.env;
        let its2 = deploy_its(env, &w.gw.id, &w.gas.id, HUB_ADDR, CHAIN_NAMES[1]);
        let mut svcs = vec![
            Svc { client: InterchainTokenServiceClient::new(env, &w.its.id), id: w.its.id.clone(), chain: CHAIN_NAMES[0], reg: BTreeMap::new(), order: vec![] },
            Svc { client: InterchainTokenServiceClient::new(env, &its2.id), id: its2.id.clone(), chain: CHAIN_NAMES[1], reg: BTreeMap::new(), order: vec![] },
        ];
        // canonical candidates: two Stellar assets, and a stand-alone interchain token that reports an id of its own
        // (the id some local deployment on the first service would get)
        let standalone_id = oracle_token_id(CHAIN_NAMES[0], &addr_sv(&w.users[0]), &h32("c11-salt", 0));
        let standalone = register_native_token(env, &w.users[2], None, standalone_id, "Alone", "ALN", 7);
        let assets = [w.new_asset(), w.new_asset(), standalone.address.clone()];
        env.mock_all_auths();
        for s in &svcs {
            s.client.set_trusted_chain(&sstr(env, "ethereum"));
        }
        let third = w.users[3].clone();
        let recipient = w.users[4].clone();
        let net = network_id(env);
        let mut nontrivial = false;
        let mut msg_no = 0u64;
        let mut days_passed: u32 = 0;

        for (step, op) in case.ops.iter().enumerate() {
            let si = match op {
                Op::DeployLocal { its, .. } | Op::RegisterCanonical { its, .. } | Op::RemoteDeploy { its, .. } | Op::RequestRemoteCanonical { its, .. } | Op::RequestRemoteInterchain { its, .. } | Op::UpgradeAndMigrate { its } | Op::OutboundThenLargerInbound { its, .. } => {
                    *its as usize % 2
                }
                Op::AdvanceDays(_) => 0,
            };
            // registry sweep helper
            let check_registry = |svcs: &Vec<Svc>, at: &str| -> Result<(), String> {
                for s in svcs.iter() {
                    for (id, e) in &s.reg {
                        let idb = BytesN::from_array(env, id);
                        let a = s.client.try_token_address(&idb);
                        ensure_p!(matches!(&a, Ok(Ok(x)) if *x == e.addr), "{}: token_address of a registered id changed ({:?})", at, a);
                        let t = s.client.try_token_manager_type(&idb);
                        let want = if e.native { TokenManagerType::NativeInterchainToken } else { TokenManagerType::LockUnlock };
                        ensure_p!(matches!(&t, Ok(Ok(x)) if *x == want), "{}: token_manager_type of a registered id changed ({:?})", at, t);
                    }
                }
                Ok(())
            };
            match op {
                Op::AdvanceDays(d) => {
                    if days_passed + *d as u32 <= 200 {
                        days_passed += *d as u32;
                        advance_ledgers(env, *d as u32 * 17280);
                        cx.label("ledger_advanced_by_days");
                    }
                }
                Op::DeployLocal { deployer, salt, meta, supply, minter, .. } => {
                    let dep = w.users[*deployer as usize % 3].clone();
                    let salt_b = h32("c11-salt", *salt as u64);
                    let s = &svcs[si];
                    // id derivation: contract's own queries vs independent derivation
                    let want_ds = oracle_deploy_salt(s.chain, &addr_sv(&dep), &salt_b);
                    let want_id = oracle_token_id_from_salt(&want_ds);
                    let got_ds = s.client.interchain_token_deploy_salt(&dep, &BytesN::from_array(env, &salt_b)).to_array();
                    ensure_p!(got_ds == want_ds, "interchain_token_deploy_salt differs from the independent derivation (chain {}, deployer, salt)", s.chain);
                    let zero = <Address as axelar_soroban_std::address::AddressExt>::zero(env);
                    let got_id = s.client.interchain_token_id(&zero, &BytesN::from_array(env, &got_ds)).to_array();
                    ensure_p!(got_id == want_id, "interchain_token_id differs from the independent derivation");
                    let want_addr_hash = contract_id_from_address(&net, &addr_sv(&s.id), &want_id);
                    let predicted = inject_native_token(env, &s.id, &want_id);
                    ensure_p!(addr_sv(&predicted) == Sv::Contract(want_addr_hash), "predicted token address differs from the independent derivation");
                    let minter_addr: Option<Address> = match minter {
                        MinterSel::None | MinterSel::NotAnAddress(_) => None,
                        MinterSel::ThirdParty => Some(third.clone()),
                        MinterSel::Deployer => Some(dep.clone()),
                        MinterSel::Service => Some(s.id.clone()),
                    };
                    let sup = supply.val();
                    let taken = s.reg.contains_key(&want_id);
                    if taken {
                        cx.label("collision:local_redeploy");
                        nontrivial = true;
                    }
                    if sup > 0 || minter_addr.is_some() {
                        nontrivial = true;
                    }
                    let undecided = !meta_valid(*meta) || sup < 0 || *minter == MinterSel::Service;
                    let (name, symbol, decimals) = meta_vals(*meta);
                    let md = soroban_token_sdk::metadata::TokenMetadata { decimal: decimals, name: sstr_bytes(env, &name), symbol: sstr_bytes(env, &symbol) };
                    env.mock_all_auths_allowing_non_root_auth();
                    let snap0 = snapshot(env);
                    let ev0 = events_len(env);
                    let r = s.client.try_deploy_interchain_token(&dep, &BytesN::from_array(env, &salt_b), &md, &sup, &minter_addr);
                    let ok = matches!(r, Ok(Ok(_)));
                    if taken {
                        cx.count("must_fail");
                        ensure_p!(!ok, "step {}: re-deploying a taken token id succeeded", step);
                    } else if undecided {
                        cx.count("either");
                    } else {
                        cx.count("must_succeed");
                        ensure_p!(ok, "step {}: local deployment refused: {:?}", step, r);
                    }
                    if !ok {
                        ensure_p!(snapshot(env) == snap0 && events_len(env) == ev0, "step {}: failed deployment changed state", step);
                    } else {
                        let rid = r.unwrap().unwrap().to_array();
                        ensure_p!(rid == want_id, "step {}: returned token id differs from the independent derivation", step);
                        let addr = s.client.token_address(&BytesN::from_array(env, &rid));
                        ensure_p!(addr == predicted, "step {}: token deployed at an address that is not the deterministic function of its id", step);
                        let t = w.token(&addr);
                        ensure_p!(t.token_id().to_array() == want_id, "token reports another id");
                        ensure_p!(sstring_to_vec(&t.name()) == name && sstring_to_vec(&t.symbol()) == symbol && t.decimals() == decimals, "token metadata differs from the request");
                        ensure_p!(t.owner() == s.id, "token not owned by the service");
                        ensure_p!(t.balance(&dep) == sup.max(0), "deployer balance {} != initial supply {}", t.balance(&dep), sup.max(0));
                        for u in w.users.iter() {
                            if *u != dep {
                                ensure_p!(t.balance(u) == 0, "somebody else holds initial supply");
                            }
                            let designated = minter_addr.as_ref() == Some(u);
                            ensure_p!(t.is_minter(u) == designated, "minting right of a pool member is {} but designated={}", t.is_minter(u), designated);
                        }
                        let svc_minter = t.is_minter(&s.id);
                        let known_cfg = sup > 0 && matches!(minter, MinterSel::ThirdParty | MinterSel::Deployer);
                        if !svc_minter {
                            if known_cfg {
                                cx.known_or_fail(
                                    "supply>0-with-minter-revokes-its",
                                    format!("deploy_interchain_token(supply {}, minter {:?}) leaves the service without minting rights on its own token", sup, minter),
                                )?;
                            } else {
                                return Err(format!("step {}: service is not a minter of the token it deployed (supply {}, minter {:?})", step, sup, minter));
                            }
                        }
                        svcs[si].reg.insert(want_id, Entry { addr: addr.clone(), native: true });
                        svcs[si].order.push(want_id);
                        // behavioural probe: an approved inbound transfer must credit the recipient
                        msg_no += 1;
                        let s = &svcs[si];
                        let before = t.balance(&recipient);
                        let inner = AMsg::Transfer { token_id: want_id, source: vec![1, 2, 3], dest: address_xdr(env, &recipient), amount: word_u128(5), data: vec![] };
                        let payload = ItsWorld::receive_payload("ethereum", &inner);
                        let mid = format!("probe-{}", msg_no);
                        w.approve_for(&s.id, HUB_CHAIN, &mid, HUB_ADDR, &payload)?;
                        env.set_auths(&[]);
                        let r = s.client.try_execute(&sstr(env, HUB_CHAIN), &sstr(env, &mid), &sstr(env, HUB_ADDR), &soroban_sdk::Bytes::from_slice(env, &payload));
                        let credited = matches!(r, Ok(Ok(()))) && t.balance(&recipient) == before + 5;
                        if !credited {
                            if known_cfg && !svc_minter {
                                cx.known_or_fail(
                                    "supply>0-with-minter-revokes-its",
                                    format!("inbound transfer to a token deployed with supply {} and minter {:?} fails: the service revoked its own minting right", sup, minter),
                                )?;
                            } else {
                                return Err(format!("step {}: approved inbound transfer to a freshly deployed token did not credit the recipient: {:?}", step, r));
                            }
                        } else {
                            cx.count("inbound_probe_ok");
                            // serving a transfer is not a change of roles: the table of minting rights is as it was
                            ensure_p!(t.is_minter(&s.id) == svc_minter, "step {}: an inbound transfer changed the service's own entry in the token's table of minters ({} -> {})", step, svc_minter, t.is_minter(&s.id));
                            for u in w.users.iter() {
                                ensure_p!(t.is_minter(u) == (minter_addr.as_ref() == Some(u)), "step {}: an inbound transfer changed a pool member's minting right", step);
                            }
                        }
                    }
                }
                Op::RegisterCanonical { asset, .. } => {
                    let s = &svcs[si];
                    // 3: a token this service deployed itself (it reports the id it was deployed under)
                    let own_native = s.order.iter().find(|id| s.reg[*id].native).map(|id| s.reg[id].addr.clone());
                    let a = match (*asset % 4, own_native) {
                        (3, Some(t)) => {
                            cx.label("canonical_candidate:token_deployed_by_the_service");
                            t
                        }
                        (k, _) => {
                            if k >= 2 {
                                cx.label("canonical_candidate:stand_alone_interchain_token");
                            }
                            assets[(k as usize).min(2)].clone()
                        }
                    };
                    let self_reporting = !assets[..2].contains(&a);
                    let want_salt = oracle_canonical_salt(s.chain, &addr_sv(&a));
                    let want_id = oracle_token_id_from_salt(&want_salt);
                    ensure_p!(s.client.canonical_token_deploy_salt(&a).to_array() == want_salt, "canonical_token_deploy_salt differs from the independent derivation");
                    let taken = s.reg.contains_key(&want_id);
                    if taken {
                        cx.label("collision:canonical_reregister");
                        nontrivial = true;
                    }
                    env.mock_all_auths();
                    let snap0 = snapshot(env);
                    let ev0 = events_len(env);
                    let r = s.client.try_register_canonical_token(&a);
                    let ok = matches!(r, Ok(Ok(_)));
                    if taken {
                        cx.count("must_fail");
                        ensure_p!(!ok, "step {}: re-registering a canonical token succeeded", step);
                        ensure_p!(snapshot(env) == snap0 && events_len(env) == ev0, "step {}: failed registration changed state", step);
                    } else if self_reporting && !ok {
                        // whether a token that is not a plain asset contract may be registered is not decided by the statement
                        cx.count("either");
                        ensure_p!(snapshot(env) == snap0 && events_len(env) == ev0, "step {}: failed registration changed state", step);
                    } else {
                        if self_reporting {
                            cx.count("either");
                            nontrivial = true;
                        } else {
                            cx.count("must_succeed");
                        }
                        ensure_p!(ok, "step {}: canonical registration refused: {:?}", step, r);
                        ensure_p!(r.unwrap().unwrap().to_array() == want_id, "canonical token id differs from the independent derivation from (chain name, token address)");
                        ensure_p!(s.client.token_address(&BytesN::from_array(env, &want_id)) == a, "canonical id does not resolve to the registered token address");
                        svcs[si].reg.insert(want_id, Entry { addr: a.clone(), native: false });
                        svcs[si].order.push(want_id);
                    }
                }
                Op::OutboundThenLargerInbound { k, .. } => {
                    let s = &svcs[si];
                    let natives: Vec<[u8; 32]> = s.order.iter().filter(|id| s.reg[*id].native).cloned().collect();
                    if natives.is_empty() {
                        continue;
                    }
                    let id = natives[*k as usize % natives.len()];
                    let t = w.token(&s.reg[&id].addr);
                    if !t.is_minter(&s.id) {
                        // (the configuration of the known finding: the service cannot mint there in the first place)
                        continue;
                    }
                    let Some(holder) = w.users.iter().find(|u| t.balance(u) > 0).cloned() else { continue };
                    w.fund_gas(&holder, 5);
                    env.mock_all_auths_allowing_non_root_auth();
                    let out = s.client.try_interchain_transfer(&holder, &BytesN::from_array(env, &id), &sstr(env, "ethereum"), &soroban_sdk::Bytes::from_slice(env, &[1, 2, 3]), &1, &None, &w.gas_token(1));
                    ensure_p!(matches!(out, Ok(Ok(()))), "step {}: outbound transfer of 1 by a holder of a deployed token refused: {:?}", step, out);
                    msg_no += 1;
                    let before = t.balance(&recipient);
                    let inner = AMsg::Transfer { token_id: id, source: vec![1, 2, 3], dest: address_xdr(env, &recipient), amount: word_u128(5), data: vec![] };
                    let payload = ItsWorld::receive_payload("ethereum", &inner);
                    let mid = format!("after-out-{}", msg_no);
                    w.approve_for(&s.id, HUB_CHAIN, &mid, HUB_ADDR, &payload)?;
                    env.set_auths(&[]);
                    let r = s.client.try_execute(&sstr(env, HUB_CHAIN), &sstr(env, &mid), &sstr(env, HUB_ADDR), &soroban_sdk::Bytes::from_slice(env, &payload));
                    cx.count("must_succeed");
                    cx.label("inbound_larger_than_what_went_out_before");
                    nontrivial = true;
                    ensure_p!(matches!(r, Ok(Ok(()))) && t.balance(&recipient) == before + 5, "step {}: after an outbound transfer of 1 the service no longer mints an approved inbound transfer of 5 for its own token: {:?}", step, r);
                }
                Op::UpgradeAndMigrate { .. } => {
                    upgrade_and_migrate(env, &svcs[si].id).map_err(|e| format!("step {}: {}", step, e))?;
                    cx.label("upgrade_and_migration_in_history");
                }
                Op::RequestRemoteCanonical { asset, .. } => {
                    let s = &svcs[si];
                    let a = assets[(*asset as usize % 4).min(2)].clone();
                    w.fund_gas(&w.users[1], 5);
                    env.mock_all_auths_allowing_non_root_auth();
                    let r = s.client.try_deploy_remote_canonical_token(&a, &sstr(env, "ethereum"), &w.users[1], &w.gas_token(1));
                    cx.count("either");
                    cx.label(if matches!(r, Ok(Ok(_))) { "remote_canonical_request_accepted" } else { "remote_canonical_request_refused" });
                }
                Op::RequestRemoteInterchain { deployer, salt, .. } => {
                    let s = &svcs[si];
                    let dep = w.users[*deployer as usize % 3].clone();
                    w.fund_gas(&dep, 5);
                    env.mock_all_auths_allowing_non_root_auth();
                    let r = s.client.try_deploy_remote_interchain_token(&dep, &BytesN::from_array(env, &h32("c11-salt", *salt as u64)), &sstr(env, "ethereum"), &w.gas_token(1));
                    cx.count("either");
                    cx.label(if matches!(r, Ok(Ok(_))) { "remote_interchain_request_accepted" } else { "remote_interchain_request_refused" });
                }
                Op::RemoteDeploy { collide, fresh, meta, minter, .. } => {
                    let s = &svcs[si];
                    let (id, colliding) = match collide {
                        Some(k) if !s.order.is_empty() => (s.order[*k as usize % s.order.len()], true),
                        _ => {
                            // fresh ids 3..5: the id a canonical candidate *would* get on this service (taken or not yet)
                            let id = if *fresh >= 3 {
                                cx.label("remote_deploy_under_a_canonical_candidates_id");
                                oracle_canonical_token_id(s.chain, &addr_sv(&assets[(*fresh as usize - 3) % 3]))
                            } else {
                                h32(&format!("c11-remote-{}", si), *fresh as u64)
                            };
                            (id, s.reg.contains_key(&id))
                        }
                    };
                    if colliding {
                        cx.label("collision:remote_deploy_for_taken_id");
                        nontrivial = true;
                    }
                    let minter_addr: Option<Address> = match minter {
                        MinterSel::None | MinterSel::Service | MinterSel::NotAnAddress(_) => None,
                        MinterSel::ThirdParty => Some(third.clone()),
                        MinterSel::Deployer => Some(w.users[0].clone()),
                    };
                    // a designated minter that is no address: nobody can be given the right the message asks for
                    let bad_minter: Option<Vec<u8>> = match minter {
                        MinterSel::NotAnAddress(k) => Some(match k % 3 {
                            0 => {
                                use soroban_sdk::xdr::ToXdr;
                                third.to_string().to_xdr(env).to_alloc_vec()
                            }
                            1 => {
                                use soroban_sdk::xdr::ToXdr;
                                7u32.to_xdr(env).to_alloc_vec()
                            }
                            _ => {
                                let mut v = address_xdr(env, &third);
                                v.truncate(v.len() - 5);
                                v
                            }
                        }),
                        _ => None,
                    };
                    if bad_minter.is_some() {
                        cx.label("remote_deploy_designating_a_minter_that_is_no_address");
                        nontrivial = true;
                    }
                    if minter_addr.is_some() {
                        nontrivial = true;
                    }
                    let (name, symbol, decimals) = meta_vals(*meta);
                    let decimals = decimals.min(255);
                    let valid = !name.is_empty() && !symbol.is_empty();
                    let predicted = inject_native_token(env, &s.id, &id);
                    let inner = AMsg::Deploy {
                        token_id: id,
                        name: name.clone(),
                        symbol: symbol.clone(),
                        decimals: word_u64(decimals as u64),
                        minter: match &bad_minter {
                            Some(b) => b.clone(),
                            None => minter_addr.as_ref().map(|m| address_xdr(env, m)).unwrap_or_default(),
                        },
                    };
                    let payload = ItsWorld::receive_payload("ethereum", &inner);
                    msg_no += 1;
                    let mid = format!("remote-{}", msg_no);
                    w.approve_for(&s.id, HUB_CHAIN, &mid, HUB_ADDR, &payload)?;
                    env.set_auths(&[]);
                    let snap0 = snapshot(env);
                    let ev0 = events_len(env);
                    let r = s.client.try_execute(&sstr(env, HUB_CHAIN), &sstr(env, &mid), &sstr(env, HUB_ADDR), &soroban_sdk::Bytes::from_slice(env, &payload));
                    let ok = matches!(r, Ok(Ok(())));
                    if colliding || !valid || bad_minter.is_some() {
                        cx.count("must_fail");
                        ensure_p!(!ok, "step {}: remote deploy message accepted (taken id: {}, valid metadata: {}, designated minter is an address: {}): the token exists but its designated minter got no minting right", step, colliding, valid, bad_minter.is_none());
                        ensure_p!(snapshot(env) == snap0 && events_len(env) == ev0, "step {}: rejected remote deploy changed state", step);
                    } else {
                        cx.count("must_succeed");
                        ensure_p!(ok, "step {}: remote deploy message for a free id refused: {:?}", step, r);
                        let addr = s.client.token_address(&BytesN::from_array(env, &id));
                        ensure_p!(addr == predicted, "remote-deployed token address is not the deterministic function of its id");
                        ensure_p!(addr_sv(&addr) == Sv::Contract(contract_id_from_address(&net, &addr_sv(&s.id), &id)), "token address differs from the independent derivation");
                        let t = w.token(&addr);
                        ensure_p!(t.token_id().to_array() == id, "token reports another id");
                        ensure_p!(sstring_to_vec(&t.name()) == name && sstring_to_vec(&t.symbol()) == symbol && t.decimals() == decimals, "token metadata differs from the message");
                        ensure_p!(t.owner() == s.id && t.is_minter(&s.id), "remote-deployed token not owned / mintable by the service");
                        for u in w.users.iter() {
                            ensure_p!(t.is_minter(u) == (minter_addr.as_ref() == Some(u)), "minting rights differ from the designated minter");
                            ensure_p!(t.balance(u) == 0, "remote-deployed token has a non-zero balance");
                        }
                        // an approved inbound transfer to the new token credits the recipient and leaves the roles alone
                        msg_no += 1;
                        let before = t.balance(&recipient);
                        let tr = AMsg::Transfer { token_id: id, source: vec![1, 2, 3], dest: address_xdr(env, &recipient), amount: word_u128(5), data: vec![] };
                        let p2 = ItsWorld::receive_payload("ethereum", &tr);
                        let mid2 = format!("probe-{}", msg_no);
                        w.approve_for(&s.id, HUB_CHAIN, &mid2, HUB_ADDR, &p2)?;
                        env.set_auths(&[]);
                        let r2 = s.client.try_execute(&sstr(env, HUB_CHAIN), &sstr(env, &mid2), &sstr(env, HUB_ADDR), &soroban_sdk::Bytes::from_slice(env, &p2));
                        ensure_p!(matches!(r2, Ok(Ok(()))) && t.balance(&recipient) == before + 5, "step {}: approved inbound transfer to a token deployed by a remote deploy message did not credit the recipient: {:?}", step, r2);
                        ensure_p!(t.is_minter(&s.id), "step {}: an inbound transfer took the service's own entry out of the token's table of minters", step);
                        for u in w.users.iter() {
                            ensure_p!(t.is_minter(u) == (minter_addr.as_ref() == Some(u)), "step {}: an inbound transfer changed a pool member's minting right", step);
                        }
                        svcs[si].reg.insert(id, Entry { addr, native: true });
                        svcs[si].order.push(id);
                    }
                }
            }
            check_registry(&svcs, &format!("after step {} {:?}", step, op))?;
        }
        if nontrivial {
            cx.nontrivial();
        }
        Ok(())
    }
}
