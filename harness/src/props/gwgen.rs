//! Shared generators for gateway signer sets (weights / thresholds at the boundaries).

use crate::world::{BuiltSet, SetSpec};
use proptest::prelude::*;
#[allow(unused_imports)]
use crate::prop_oneof;
use serde::{Deserialize, Serialize};

#[derive(Clone, Copy, Debug, Serialize, Deserialize, PartialEq, Eq)]
pub enum WClass {
    One,
    Small(u8),
    Pow64,
    /// u128::MAX minus the sum of the other weights (only the first Fill of a set; later ones are 1)
    Fill,
}

#[derive(Clone, Copy, Debug, Serialize, Deserialize, PartialEq, Eq)]
pub enum TClass {
    One,
    Total,
    TotalMinus1,
    /// sum of the weights selected by the mask (positions after sorting by key)
    Subset(u32),
}

#[derive(Clone, Debug, Serialize, Deserialize, PartialEq, Eq)]
pub struct SetGen {
    pub seeds: Vec<u16>,
    pub w: Vec<WClass>,
    pub t: TClass,
}

impl SetGen {
    /// Always yields a well-formed set (distinct sorted keys, non-zero weights, 1 <= threshold <= total).
    pub fn build(&self, nonce: u8) -> BuiltSet {
        let mut seeds = vec![];
        for s in &self.seeds {
            if !seeds.contains(s) {
                seeds.push(*s);
            }
        }
        if seeds.is_empty() {
            seeds.push(0);
        }
        let n = seeds.len();
        let mut weights: Vec<u128> = vec![];
        let mut fill_at: Option<usize> = None;
        for i in 0..n {
            let c = self.w.get(i).copied().unwrap_or(WClass::One);
            weights.push(match c {
                WClass::One => 1,
                WClass::Small(k) => 1 + k as u128,
                WClass::Pow64 => 1u128 << 64,
                WClass::Fill => {
                    if fill_at.is_none() {
                        fill_at = Some(i);
                    }
                    1
                }
            });
        }
        if let Some(i) = fill_at {
            let others: u128 = weights.iter().enumerate().filter(|(j, _)| *j != i).map(|(_, w)| *w).sum();
            weights[i] = u128::MAX - others;
        }
        let mut b = SetSpec { seeds, weights, threshold: 1, nonce }.build();
        let total: u128 = b.weights.iter().sum();
        b.threshold = match self.t {
            TClass::One => 1,
            TClass::Total => total,
            TClass::TotalMinus1 => (total - 1).max(1),
            TClass::Subset(m) => {
                let s = b.mask_weight(m & b.full_mask()).unwrap_or(total);
                if s == 0 {
                    1
                } else {
                    s
                }
            }
        };
        b
    }
}

pub fn wclass() -> impl Strategy<Value = WClass> {
    prop_oneof![
        3 => Just(WClass::One),
        4 => (0u8..20).prop_map(WClass::Small),
        1 => Just(WClass::Pow64),
        1 => Just(WClass::Fill),
    ]
}

pub fn tclass() -> impl Strategy<Value = TClass> {
    prop_oneof![
        1 => Just(TClass::One),
        2 => Just(TClass::Total),
        1 => Just(TClass::TotalMinus1),
        5 => any::<u32>().prop_map(TClass::Subset),
    ]
}

pub fn setgen(max_signers: usize) -> impl Strategy<Value = SetGen> {
    // (no prop_flat_map: it forks the RNG, see engine::OneOf) both vectors are drawn at full length and cut to n
    (1..=max_signers, proptest::collection::vec(0u16..400, max_signers), proptest::collection::vec(wclass(), max_signers), tclass()).prop_map(|(n, mut seeds, mut w, t)| {
        seeds.truncate(n);
        w.truncate(n);
        SetGen { seeds, w, t }
    })
}

/// monotone index map (shrinks toward 0)
pub fn pick(i: u16, len: usize) -> usize {
    if len == 0 {
        0
    } else {
        ((i as usize) * len) >> 16
    }
}
