//! C02 — each message is approved once and executed once, only by its destination.
//! Histories over colliding (chain, id) pools against a reference status map.

use crate::engine::{Cx, Property, Tier};
use crate::ensure_p;
use crate::probes::{Caller, CallerClient};
use crate::world::*;
use axelar_gateway::types::Message;
use proptest::prelude::*;
#[allow(unused_imports)]
use crate::prop_oneof;
use serde::{Deserialize, Serialize};
use soroban_sdk::testutils::{Address as _, MockAuth, MockAuthInvoke};
use soroban_sdk::{Address, BytesN, Env, IntoVal};
use std::collections::BTreeMap;

pub struct C02;

// Pools built so that different (chain, id) pairs consist of the same characters split differently:
// under plain concatenation ("a"+"bc" = "ab"+"c" = "abc"+""), and under concatenation with a separator
// ("x"+"_"+"y_z" = "x_y"+"_"+"z", likewise for ":"), plus pairs of long strings that differ only in their
// last character (a key that looks at a prefix or at less than everything would confuse them).
const CHAINS: [&str; 17] = [
    "",
    "a",
    "ab",
    "abc",
    "zzzzzzzzzzzzzzzzzzzzzzzzzzzzzzzzzzzzzzzzzzzzzzzzzzzzzzzzzzzzzzzzzzzzzzzz-1",
    "zzzzzzzzzzzzzzzzzzzzzzzzzzzzzzzzzzzzzzzzzzzzzzzzzzzzzzzzzzzzzzzzzzzzzzzz-2",
    "x",
    "x_y",
    "p",
    "p:q",
    "A",
    "a ",
    // with ids[12], ids[13]: the same 150 characters split at two different positions
    "wwwwwwwwwwwwwwwwwwwwwwwwwwwwwwwwwwwwwwwwwwwwwwwwwwwwwwwwwwwwwwwwwwwwwwwwww",
    "wwwwwwwwwwwwwwwwwwwwwwwwwwwwwwwwwwwwwwwwwwwwwwwwwwwwwwwwwwwwwwwwwwwwwwwwwww",
    // three of the id pool's strings (and three of this pool's strings are ids): pairs that mirror each other,
    // (chain, id) = ("a", "c") and ("c", "a")
    "c",
    "bc",
    "b",
];
const IDS: [&str; 17] = [
    "",
    "c",
    "bc",
    "b",
    "0x00000000000000000000000000000000000000000000000000000000000000000000-1",
    "0x00000000000000000000000000000000000000000000000000000000000000000000-2",
    "y_z",
    "z",
    "q:r",
    "r",
    "C",
    " c",
    "wvvvvvvvvvvvvvvvvvvvvvvvvvvvvvvvvvvvvvvvvvvvvvvvvvvvvvvvvvvvvvvvvvvvvvvvvvvv",
    "vvvvvvvvvvvvvvvvvvvvvvvvvvvvvvvvvvvvvvvvvvvvvvvvvvvvvvvvvvvvvvvvvvvvvvvvvvv",
    "a",
    "ab",
    "abc",
];
const NC: u8 = 17;
const ND: u8 = 5;
const JOINERS: [&str; 3] = ["", "_", ":"];
const SRCS: [&str; 3] = ["src", "src2", ""];

#[derive(Clone, Copy, Debug, Serialize, Deserialize, PartialEq, Eq, PartialOrd, Ord)]
pub struct MRef {
    pub chain: u8,
    pub id: u8,
    pub src: u8,
    pub dest: u8,
    pub ph: u8,
}

#[derive(Clone, Debug, Serialize, Deserialize, PartialEq, Eq)]
pub enum Op {
    Approve(Vec<MRef>),
    /// consume attempt: `caller` (0 = probe contract calling as itself, 1..2 = accounts)
    Validate { caller: u8, m: MRef, authorised: bool },
    /// replay the message stored for a (chain,id) exactly (or with one field changed)
    ValidateStored { slot: u8, change: u8, authorised: bool },
    /// probe contract names another address as caller
    ValidateAsOther { m: MRef },
    /// the ledger advances by this many days (statuses must not decay with time)
    AdvanceDays(u8),
    /// the signer set is rotated (by the newest set; with the operator's bypass or without): statuses are not the
    /// signers' business and must survive; later approvals are signed by the new set
    Rotate { bypass: bool },
    /// the owner upgrades the gateway and completes the migration: statuses must be carried over
    UpgradeAndMigrate,
    /// approval of the mirror image of a message the history already knows: chain = that message's id, id = that
    /// message's chain (the first known message from `slot` on whose strings exist in the opposite pools)
    ApproveMirror { slot: u8, src: u8, dest: u8, ph: u8 },
}

#[derive(Clone, Debug, Serialize, Deserialize)]
pub struct Case {
    pub ops: Vec<Op>,
    /// entry-point sweep case (see sweep.rs); `ops` is ignored
    #[serde(default)]
    pub sweep: Option<crate::sweep::SweepCase>,
}

fn mref() -> impl Strategy<Value = MRef> {
    // destinations 3, 4: the account-kind addresses carrying the same 32 bytes as destinations 1 and 0
    (0u8..NC, 0u8..NC, 0u8..3, prop_oneof![9 => 0u8..3, 2 => 3u8..ND], 0u8..3).prop_map(|(chain, id, src, dest, ph)| MRef { chain, id, src, dest, ph })
}

fn op() -> impl Strategy<Value = Op> {
    prop_oneof![
        4 => proptest::collection::vec(mref(), 1..5).prop_map(Op::Approve),
        2 => (0u8..3, mref(), prop_oneof![4 => Just(true), 1 => Just(false)]).prop_map(|(caller, m, authorised)| Op::Validate { caller, m, authorised }),
        5 => (0u8..196, 0u8..8, prop_oneof![6 => Just(true), 1 => Just(false)]).prop_map(|(slot, change, authorised)| Op::ValidateStored { slot, change, authorised }),
        1 => mref().prop_map(|m| Op::ValidateAsOther { m }),
        1 => (1u8..90).prop_map(Op::AdvanceDays),
        1 => any::<bool>().prop_map(|bypass| Op::Rotate { bypass }),
        1 => Just(Op::UpgradeAndMigrate),
        2 => (0u8..196, 0u8..3, 0u8..3, 0u8..3).prop_map(|(slot, src, dest, ph)| Op::ApproveMirror { slot, src, dest, ph }),
    ]
}

#[derive(Clone, Debug, PartialEq, Eq)]
enum St {
    Approved(MRef),
    Executed(MRef),
}

struct W<'a> {
    env: Env,
    gw: Gw<'a>,
    set: BuiltSet,
    dests: Vec<Address>,
    probe: CallerClient<'a>,
}

impl<'a> W<'a> {
    fn msg(&self, m: &MRef) -> Message {
        Message {
            source_chain: sstr(&self.env, CHAINS[m.chain as usize]),
            message_id: sstr(&self.env, IDS[m.id as usize]),
            source_address: sstr(&self.env, SRCS[m.src as usize]),
            contract_address: self.dests[m.dest as usize].clone(),
            payload_hash: BytesN::from_array(&self.env, &h32("ph", m.ph as u64)),
        }
    }
    fn approved(&self, m: &MRef) -> bool {
        let x = self.msg(m);
        self.gw.client.is_message_approved(&x.source_chain, &x.message_id, &x.source_address, &x.contract_address, &x.payload_hash)
    }
    fn executed(&self, chain: u8, id: u8) -> bool {
        self.gw.client.is_message_executed(&sstr(&self.env, CHAINS[chain as usize]), &sstr(&self.env, IDS[id as usize]))
    }
}

fn variants(m: &MRef) -> Vec<MRef> {
    vec![
        MRef { src: (m.src + 1) % 3, ..*m },
        MRef { dest: (m.dest + 1) % ND, ..*m },
        MRef { dest: (m.dest + 2) % ND, ..*m },
        MRef { dest: (m.dest + 3) % ND, ..*m },
        MRef { dest: (m.dest + 4) % ND, ..*m },
        MRef { ph: (m.ph + 1) % 3, ..*m },
    ]
}

impl Property for C02 {
    type Case = Case;
    fn id(&self) -> &'static str {
        "C02"
    }
    fn rule(&self) -> &'static str {
        "proptest histories (<=30 quick / <=60 thorough ops) [three strings are members of both the chain pool and the id pool, and an operation approves the mirror image (chain = id, id = chain) of a known message] of batched approvals (with in-batch duplicates and re-use of known ids), consumption attempts (probe contract calling as itself, accounts with/without authorisation, destinations and callers that are the account-kind address carrying the same 32 bytes as a contract-kind destination, exact replay of a stored message or with one field changed, a contract naming another address) signer rotations (ordinary and operator-bypass; later approvals are signed by the new set) and ledger advancement by 1-89 days (<= 250 days in total; statuses must not decay) over pools built to collide: 14 chains x 14 ids such that several pairs consist of the same characters split differently between chain and id (plain concatenation: a+bc = ab+c = abc+\"\"; with separators: x + y_z vs x_y + z, p + q:r vs p:q + r) two pairs of 70-character strings differing only in the last character, one pair of 150 characters split at two different positions, and strings differing only in letter case or a leading/trailing space; oracle = reference map (chain,id)->NotApproved/Approved(msg)/Executed moving only forward, event trace per op, sweep of is_message_executed over every known id and every id that collides with a known one and is_message_approved over stored messages and one-field variants after every op. non-trivial = history re-approves an executed id, or consumes with exactly one mismatching field after an approval, or has an in-batch duplicate id, or touches two ids whose chain||id concatenations coincide. A share of the random cases is an entry-point sweep (construction as described for C13: the exported functions of all shipped contracts read from the sources of the tree under test, a complete deployed system, pooled arguments - including well-formed signer sets nobody installed and proofs properly signed by the gateway's own signer set over digests that belong to no command -, every require_auth satisfied by the host's mock and recorded; entry points absent from the pinned inventory get 300 deterministic cases each); oracle: one of eight messages the gateway holds approved becomes executed only if the destination it names is among the recorded signers or is the called contract; non-trivial = the call succeeded"
    }
    fn cases(&self, tier: Tier) -> u64 {
        tier.pick(3000, 40000)
    }
    fn strategy(&self, tier: Tier) -> BoxedStrategy<Case> {
        let direct: BoxedStrategy<Case> = {
        (proptest::collection::vec(op(), 1..tier.pick(30usize, 60usize)), crate::engine::repeats()).prop_map(|(ops, reps)| Case { ops: crate::engine::with_repeats(ops, &reps), sweep: None }).boxed()
        };
        match crate::sweep::strategy(crate::sweep::Rule::Consume) {
            Some(sw) => prop_oneof![9 => direct, 1 => sw.prop_map(|s| Case { ops: vec![], sweep: Some(s) })].boxed(),
            None => direct,
        }
    }
    fn fixed_cases(&self, _tier: Tier) -> Vec<Case> {
        let mut sweep_fixed: Vec<Case> = crate::sweep::fixed_cases(300).into_iter().map(|s| Case { ops: vec![], sweep: Some(s) }).collect();
        sweep_fixed.extend(fixed_direct());
        sweep_fixed
    }

    fn run(&self, case: &Case, cx: &mut Cx) -> Result<(), String> {
        if let Some(sw) = &case.sweep {
            return crate::sweep::run(sw, cx, crate::sweep::Rule::Consume);
        }
        let env = new_env_longlived();
        let set = simple_set(1);
        let mut days_passed: u32 = 0;
        let gw = deploy_gateway(&env, [7; 32], 0, 0, &[set.clone()]).map_err(|e| format!("setup: {}", e))?;
        let probe_id = env.register(Caller, ());
        let probe = CallerClient::new(&env, &probe_id);
        let mut dests = vec![probe_id.clone(), Address::generate(&env), Address::generate(&env)];
        dests.push(kind_twin(&env, &dests[1]));
        dests.push(kind_twin(&env, &dests[0]));
        let w = W { env: env.clone(), gw, set, dests, probe };
        let mut model: BTreeMap<(u8, u8), St> = BTreeMap::new();
        let mut touched_concat: std::collections::BTreeSet<(String, (u8, u8))> = Default::default();
        let mut nontrivial = false;
        let mut cur_set = w.set.clone();
        let mut rotations: u16 = 0;

        for (step, op) in case.ops.iter().enumerate() {
            let ev0 = events_len(&env);
            let gw_before = snapshot_of(&env, &w.gw.id);
            let mut touched: Vec<(u8, u8)> = vec![];
            let mirrored;
            let op = if let Op::ApproveMirror { slot, src, dest, ph } = op {
                let n = model.len().max(1);
                let found = (0..model.len()).map(|k| *model.keys().nth((*slot as usize + k) % n).unwrap()).find_map(|(c, i)| {
                    let mc = CHAINS.iter().position(|x| *x == IDS[i as usize])?;
                    let mi = IDS.iter().position(|x| *x == CHAINS[c as usize])?;
                    if (mc as u8, mi as u8) == (c, i) {
                        return None;
                    }
                    Some(MRef { chain: mc as u8, id: mi as u8, src: *src, dest: *dest, ph: *ph })
                });
                match found {
                    Some(m) => {
                        cx.label("mirror_image_of_a_known_message_approved");
                        nontrivial = true;
                        mirrored = Op::Approve(vec![m]);
                        &mirrored
                    }
                    None => continue,
                }
            } else {
                op
            };
            match op {
                Op::ApproveMirror { .. } => unreachable!(),
                Op::UpgradeAndMigrate => {
                    // (should the tree's migration take data, the owner names every message of the history so far)
                    let hints = MigHints { pairs: model.keys().map(|(c, i)| (CHAINS[*c as usize].to_string(), IDS[*i as usize].to_string())).collect(), ..Default::default() };
                    upgrade_and_migrate_with(&env, &w.gw.id, &hints).map_err(|e| format!("step {}: {}", step, e))?;
                    cx.label("upgrade_and_migration_in_history");
                    nontrivial = true;
                    touched.extend(model.keys().cloned());
                }
                Op::Rotate { bypass } => {
                    rotations += 1;
                    let next = simple_set(100 + rotations);
                    env.mock_all_auths();
                    ensure_p!(w.gw.rotate(&env, &next, &cur_set, cur_set.full_mask(), *bypass), "step {}: honest rotation (bypass {}) refused", step, bypass);
                    env.set_auths(&[]);
                    cur_set = next;
                    cx.label(if *bypass { "bypass_rotation_in_history" } else { "rotation_in_history" });
                    nontrivial = true;
                    // every known id is swept below
                    touched.extend(model.keys().cloned());
                }
                Op::AdvanceDays(d) => {
                    if days_passed + *d as u32 <= 250 {
                        days_passed += *d as u32;
                        advance_ledgers(&env, *d as u32 * 17280);
                        cx.label("ledger_advanced_by_days");
                    }
                }
                Op::Approve(batch) => {
                    let mut expected_new: Vec<MRef> = vec![];
                    let mut seen = std::collections::BTreeSet::new();
                    for m in batch {
                        let key = (m.chain, m.id);
                        touched.push(key);
                        if !seen.insert(key) {
                            cx.label("in_batch_duplicate");
                            nontrivial = true;
                        }
                        match model.get(&key) {
                            None => {
                                model.insert(key, St::Approved(*m));
                                expected_new.push(*m);
                            }
                            Some(St::Executed(_)) => {
                                cx.label("reapprove_executed_id");
                                nontrivial = true;
                            }
                            Some(St::Approved(_)) => {
                                cx.label("reapprove_approved_id");
                            }
                        }
                    }
                    let msgs: Vec<Message> = batch.iter().map(|m| w.msg(m)).collect();
                    w.gw.approve(&env, &cur_set, &msgs).map_err(|e| format!("step {}: {}", step, e))?;
                    // approval events = gateway events whose first topic is the approval symbol (other events are not the property's business)
                    let evs: Vec<Ev> = events_since(&env, ev0).into_iter().filter(|e| e.0 == w.gw.id && e.1.first() == Some(&sym("message_approved"))).collect();
                    ensure_p!(
                        evs.len() == expected_new.len(),
                        "step {} {:?}: {} message_approved events, reference expects {} (only ids never seen before)",
                        step,
                        op,
                        evs.len(),
                        expected_new.len()
                    );
                    for (e, m) in evs.iter().zip(expected_new.iter()) {
                        ensure_p!(
                            e.0 == w.gw.id && e.1.len() == 2 && e.1[0] == sym("message_approved") && e.1[1] == scv(&env, w.msg(m)),
                            "step {}: approval event does not name the newly approved message",
                            step
                        );
                    }
                }
                Op::Validate { .. } | Op::ValidateStored { .. } | Op::ValidateAsOther { .. } => {
                    // resolve
                    let (caller, m, authorised, as_other): (u8, MRef, bool, bool) = match op {
                        Op::Validate { caller, m, authorised } => (*caller, *m, *authorised, false),
                        Op::ValidateStored { slot, change, authorised } => {
                            // prefer ids the history already knows (monotone in slot), else a raw slot
                            let key = if model.is_empty() { (slot / NC, slot % NC) } else { *model.keys().nth(*slot as usize % model.len()).unwrap() };
                            let base = match model.get(&key) {
                                Some(St::Approved(m)) | Some(St::Executed(m)) => *m,
                                None => MRef { chain: key.0, id: key.1, src: 0, dest: 0, ph: 0 },
                            };
                            let m = match change {
                                0..=3 => base,
                                4 => MRef { src: (base.src + 1) % 3, ..base },
                                5 => MRef { ph: (base.ph + 1) % 3, ..base },
                                6 => MRef { dest: (base.dest + 1 + slot % 4) % ND, ..base },
                                _ => MRef { id: (base.id + 1) % NC, ..base },
                            };
                            if *change >= 4 && matches!(model.get(&key), Some(St::Approved(_))) {
                                cx.label("consume_one_field_mismatch");
                                nontrivial = true;
                            }
                            (m.dest, m, *authorised, false)
                        }
                        Op::ValidateAsOther { m } => (1, *m, false, true),
                        _ => unreachable!(),
                    };
                    let key = (m.chain, m.id);
                    touched.push(key);
                    // the message the gateway will look for names the *caller* as destination
                    let looked_for = MRef { dest: caller, ..m };
                    let matches = matches!(model.get(&key), Some(St::Approved(s)) if *s == looked_for);
                    if caller != m.dest && matches!(model.get(&key), Some(St::Approved(s)) if *s == m) {
                        cx.label("consume_by_other_than_destination");
                        nontrivial = true;
                    }
                    let x = w.msg(&m);
                    let result: Result<bool, String> = if as_other {
                        // contract names account 1 as caller, nobody authorises
                        match w.probe.try_consume_as(&w.gw.id, &w.dests[1], &x.source_chain, &x.message_id, &x.source_address, &x.payload_hash) {
                            Ok(Ok(b)) => Ok(b),
                            e => Err(format!("{:?}", e)),
                        }
                    } else if caller == 0 {
                        match w.probe.try_consume(&w.gw.id, &x.source_chain, &x.message_id, &x.source_address, &x.payload_hash) {
                            Ok(Ok(b)) => Ok(b),
                            e => Err(format!("{:?}", e)),
                        }
                    } else {
                        let who = w.dests[caller as usize].clone();
                        let args = (who.clone(), x.source_chain.clone(), x.message_id.clone(), x.source_address.clone(), x.payload_hash.clone()).into_val(&env);
                        let invoke = MockAuthInvoke { contract: &w.gw.id, fn_name: "validate_message", args, sub_invokes: &[] };
                        let auths = [MockAuth { address: &who, invoke: &invoke }];
                        if caller >= 3 {
                            cx.label("caller_is_the_other_address_kind_with_the_same_bytes");
                        }
                        // (an account-kind address cannot be given a mock account contract: its authorisation is mocked wholesale)
                        let c = if authorised && caller >= 3 {
                            w.env.mock_all_auths();
                            axelar_gateway::AxelarGatewayClient::new(&w.env, &w.gw.id)
                        } else if authorised {
                            w.gw.client.mock_auths(&auths)
                        } else {
                            w.gw.client.mock_auths(&[])
                        };
                        match c.try_validate_message(&who, &x.source_chain, &x.message_id, &x.source_address, &x.payload_hash) {
                            Ok(Ok(b)) => Ok(b),
                            e => Err(format!("{:?}", e)),
                        }
                    };
                    let has_authority = if as_other { false } else { caller == 0 || authorised };
                    if !has_authority {
                        cx.count("must_fail");
                        ensure_p!(result.is_err(), "step {} {:?}: consumption without the caller's authority did not fail: {:?}", step, op, result);
                    } else if matches {
                        cx.count("must_succeed");
                        ensure_p!(result == Ok(true), "step {} {:?}: matching unexecuted approval, but consumption returned {:?}", step, op, result);
                        model.insert(key, St::Executed(looked_for));
                        // no approval event may accompany a consumption
                        ensure_p!(
                            !events_since(&env, ev0).iter().any(|e| e.1.first() == Some(&sym("message_approved"))),
                            "step {}: a consumption emitted an approval event",
                            step
                        );
                    } else {
                        cx.count("must_return_false");
                        ensure_p!(
                            result != Ok(true),
                            "step {} {:?}: consumption succeeded although the reference status is {:?}",
                            step,
                            op,
                            model.get(&key)
                        );
                        ensure_p!(events_len(&env) == ev0, "step {}: refused consumption emitted an event", step);
                        ensure_p!(snapshot_of(&env, &w.gw.id) == gw_before, "step {}: refused consumption changed gateway state", step);
                    }
                }
            }
            for k in &touched {
                for j in JOINERS {
                    let cat = format!("{}{}{}", CHAINS[k.0 as usize], j, IDS[k.1 as usize]);
                    if touched_concat.iter().any(|(c, kk)| *c == cat && kk != k) {
                        cx.label("colliding_concatenation");
                        nontrivial = true;
                    }
                    touched_concat.insert((cat, *k));
                }
            }
            // sweep
            let mut interesting: std::collections::BTreeSet<(u8, u8)> = model.keys().cloned().collect();
            interesting.extend(touched.iter().cloned());
            let base: Vec<(u8, u8)> = interesting.iter().cloned().collect();
            for c in 0..NC {
                for i in 0..NC {
                    if base.iter().any(|k| *k != (c, i) && JOINERS.iter().any(|j| format!("{}{}{}", CHAINS[k.0 as usize], j, IDS[k.1 as usize]) == format!("{}{}{}", CHAINS[c as usize], j, IDS[i as usize]))) {
                        interesting.insert((c, i));
                    }
                }
            }
            for (c, i) in interesting.iter().cloned() {
                {
                    let st = model.get(&(c, i));
                    let ex = w.executed(c, i);
                    ensure_p!(
                        ex == matches!(st, Some(St::Executed(_))),
                        "after step {} {:?}: is_message_executed({:?},{:?}) = {} but reference status is {:?}",
                        step,
                        op,
                        CHAINS[c as usize],
                        IDS[i as usize],
                        ex,
                        st
                    );
                    match st {
                        Some(St::Approved(m)) => {
                            ensure_p!(w.approved(m), "after step {}: stored approval {:?} not reported approved", step, m);
                            if touched.contains(&(c, i)) {
                                for v in variants(m) {
                                    ensure_p!(!w.approved(&v), "after step {}: one-field variant {:?} of approved {:?} reported approved", step, v, m);
                                }
                            }
                        }
                        Some(St::Executed(m)) => {
                            ensure_p!(!w.approved(m), "after step {}: executed message {:?} still reported approved", step, m);
                        }
                        None => {
                            if touched.contains(&(c, i)) {
                                let m = MRef { chain: c, id: i, src: 0, dest: 0, ph: 0 };
                                ensure_p!(!w.approved(&m), "after step {}: never approved id reported approved", step);
                            }
                        }
                    }
                }
            }
        }
        if nontrivial {
            cx.nontrivial();
        }
        Ok(())
    }
}

fn fixed_direct() -> Vec<Case> {
        let m = MRef { chain: 1, id: 2, src: 0, dest: 0, ph: 0 };
        vec![
            // approve -> execute -> re-approve same and different content -> try to execute again
            Case {
                ops: vec![
                    Op::Approve(vec![m]),
                    Op::ValidateStored { slot: 6, change: 0, authorised: true },
                    Op::Approve(vec![m]),
                    Op::Approve(vec![MRef { ph: 1, ..m }]),
                    Op::ValidateStored { slot: 6, change: 0, authorised: true },
                    Op::Validate { caller: 0, m: MRef { ph: 1, ..m }, authorised: true },
                ],
                sweep: None,
            },
            // approve -> execute -> (bypass) rotation -> the new set re-approves the executed id -> try to execute again
            Case {
                ops: vec![
                    Op::Approve(vec![m]),
                    Op::ValidateStored { slot: 6, change: 0, authorised: true },
                    Op::Rotate { bypass: true },
                    Op::Approve(vec![m]),
                    Op::ValidateStored { slot: 6, change: 0, authorised: true },
                    Op::Rotate { bypass: false },
                    Op::Approve(vec![m, MRef { ph: 1, ..m }]),
                    Op::ValidateStored { slot: 6, change: 0, authorised: true },
                ],
                sweep: None,
            },
            // "a"+"bc" vs "ab"+"c" vs "abc"+""
            Case {
                ops: vec![
                    Op::Approve(vec![MRef { chain: 1, id: 2, src: 0, dest: 1, ph: 0 }]),
                    Op::Validate { caller: 1, m: MRef { chain: 2, id: 1, src: 0, dest: 1, ph: 0 }, authorised: true },
                    Op::Validate { caller: 1, m: MRef { chain: 3, id: 0, src: 0, dest: 1, ph: 0 }, authorised: true },
                    Op::Validate { caller: 1, m: MRef { chain: 1, id: 2, src: 0, dest: 1, ph: 0 }, authorised: true },
                ],
                sweep: None,
            },
        ]
}
