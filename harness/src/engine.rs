//! Property engine: seeded parallel proptest driver with manual shrinking, classification,
//! known-finding handling, evidence and replay files.
//!
//! Every random choice comes from proptest strategies driven by a ChaCha RNG seeded from
//! sha256(VERIF_SEED || property id || worker index); nothing else (clock, OS RNG, map order)
//! influences a case.

use proptest::strategy::{BoxedStrategy, Strategy, ValueTree};
use proptest::test_runner::{Config, RngAlgorithm, TestRng, TestRunner};
use serde::{de::DeserializeOwned, Serialize};
use sha2::{Digest, Sha256};
use std::cell::RefCell;
use std::collections::{BTreeMap, HashSet};
use std::fmt::Debug;
use std::hash::{Hash, Hasher};
use std::panic::{self, AssertUnwindSafe};
use std::path::{Path, PathBuf};
use std::sync::atomic::{AtomicBool, Ordering};
use std::sync::Mutex;
use std::time::Instant;

#[derive(Clone, Copy, PartialEq, Eq, Debug)]
pub enum Tier {
    Quick,
    Thorough,
}

impl Tier {
    pub fn name(self) -> &'static str {
        match self {
            Tier::Quick => "quick",
            Tier::Thorough => "thorough",
        }
    }
    /// pick(quick, thorough)
    pub fn pick<T>(self, q: T, t: T) -> T {
        match self {
            Tier::Quick => q,
            Tier::Thorough => t,
        }
    }
}

/// Per-case context: the property's executor reports labels, oracle classes, known findings.
#[derive(Default)]
pub struct Cx {
    pub labels: Vec<String>,
    pub nontrivial: bool,
    pub counts: BTreeMap<&'static str, u64>,
    pub known_hits: Vec<(String, String)>,
    /// keys of open known findings for this property (from known_findings.json)
    open_keys: Vec<String>,
    /// strict replay mode: known findings are reported but still do not fail
    pub notes: Vec<String>,
}

impl Cx {
    pub fn label(&mut self, l: &str) {
        if !self.labels.iter().any(|x| x == l) {
            self.labels.push(l.to_string());
        }
    }
    pub fn nontrivial(&mut self) {
        self.nontrivial = true;
    }
    pub fn count(&mut self, k: &'static str) {
        *self.counts.entry(k).or_insert(0) += 1;
    }
    pub fn count_n(&mut self, k: &'static str, n: u64) {
        *self.counts.entry(k).or_insert(0) += n;
    }
    pub fn note(&mut self, s: String) {
        if self.notes.len() < 8 {
            self.notes.push(s);
        }
    }
    /// A failure whose exact signature `key` may be listed as an open known finding.
    /// Listed: counted, search continues (Ok). Not listed: violation (Err).
    pub fn known_or_fail(&mut self, key: &str, detail: String) -> Result<(), String> {
        if self.open_keys.iter().any(|k| k == key) {
            self.known_hits.push((key.to_string(), detail));
            Ok(())
        } else {
            Err(format!("[{}] {}", key, detail))
        }
    }
    pub fn is_open(&self, key: &str) -> bool {
        self.open_keys.iter().any(|k| k == key)
    }
}

pub trait Property: Sync + Send + 'static {
    type Case: Debug + Clone + Serialize + DeserializeOwned + Send + 'static;
    fn id(&self) -> &'static str;
    fn rule(&self) -> &'static str;
    fn assumptions(&self) -> Vec<&'static str> {
        vec![]
    }
    fn cases(&self, tier: Tier) -> u64;
    fn strategy(&self, tier: Tier) -> BoxedStrategy<Self::Case>;
    /// Deterministic cases that are run before the random search (enumerations, regressions).
    fn fixed_cases(&self, _tier: Tier) -> Vec<Self::Case> {
        vec![]
    }
    /// true if fixed_cases enumerates a finite space completely (reported as extra key)
    fn fixed_is_exhaustive(&self) -> Option<&'static str> {
        None
    }
    fn run(&self, case: &Self::Case, cx: &mut Cx) -> Result<(), String>;
}

// ---------------------------------------------------------------------------------------------
// panic capture

thread_local! {
    static LAST_PANIC: RefCell<Option<String>> = const { RefCell::new(None) };
}

pub fn install_quiet_panic_hook() {
    panic::set_hook(Box::new(|info| {
        let loc = info
            .location()
            .map(|l| format!("{}:{}", l.file(), l.line()))
            .unwrap_or_default();
        let msg = if let Some(s) = info.payload().downcast_ref::<&str>() {
            (*s).to_string()
        } else if let Some(s) = info.payload().downcast_ref::<String>() {
            s.clone()
        } else {
            "<non-string panic>".to_string()
        };
        // host errors carry a long diagnostic event log after the first line: keep the headline
        let head: String = msg.lines().next().unwrap_or("").chars().take(300).collect();
        LAST_PANIC.with(|p| *p.borrow_mut() = Some(format!("{} @ {}", head, loc)));
    }));
}

pub fn take_last_panic() -> Option<String> {
    LAST_PANIC.with(|p| p.borrow_mut().take())
}

/// Run `f`, converting a panic into Err(message @ location).
pub fn catch<R>(f: impl FnOnce() -> R) -> Result<R, String> {
    let _ = take_last_panic();
    match panic::catch_unwind(AssertUnwindSafe(f)) {
        Ok(r) => Ok(r),
        Err(_) => Err(take_last_panic().unwrap_or_else(|| "panic".to_string())),
    }
}

// ---------------------------------------------------------------------------------------------
// known findings

#[derive(serde::Deserialize, Clone, Debug)]
pub struct KnownFinding {
    pub property: String,
    pub key: String,
    pub status: String,
    #[serde(default)]
    pub commit: Option<String>,
    pub what: String,
}

pub fn verif_root() -> PathBuf {
    std::env::var("VERIF_ROOT")
        .map(PathBuf::from)
        .unwrap_or_else(|_| PathBuf::from("/verif"))
}

pub fn load_known() -> Vec<KnownFinding> {
    let p = verif_root().join("known_findings.json");
    match std::fs::read_to_string(&p) {
        Ok(s) => serde_json::from_str(&s).unwrap_or_else(|e| {
            eprintln!("cannot parse {}: {}", p.display(), e);
            std::process::exit(2)
        }),
        Err(_) => vec![],
    }
}

// ---------------------------------------------------------------------------------------------
// stats

#[derive(Default)]
struct Stats {
    evaluations: u64,
    nontrivial: u64,
    distinct: HashSet<u64>,
    labels: BTreeMap<String, u64>,
    counts: BTreeMap<&'static str, u64>,
    known: BTreeMap<String, (u64, String)>,
    samples: Vec<serde_json::Value>,
    sample_labels: HashSet<String>,
    notes: Vec<String>,
}

impl Stats {
    fn absorb<C: Debug + Serialize>(&mut self, case: &C, cx: Cx, max_samples: usize) {
        self.evaluations += 1;
        if cx.nontrivial {
            self.nontrivial += 1;
            let mut h = std::collections::hash_map::DefaultHasher::new();
            format!("{:?}", case).hash(&mut h);
            self.distinct.insert(h.finish());
        }
        // sample: first case carrying a not-yet-sampled label, or while few samples
        let mut want = self.samples.len() < 3 && cx.nontrivial;
        for l in &cx.labels {
            *self.labels.entry(l.clone()).or_insert(0) += 1;
            if !self.sample_labels.contains(l) && self.samples.len() < max_samples {
                self.sample_labels.insert(l.clone());
                want = true;
            }
        }
        if want && self.samples.len() < max_samples {
            if let Ok(v) = serde_json::to_value(case) {
                self.samples.push(serde_json::json!({"labels": cx.labels, "case": v}));
            }
        }
        for (k, v) in cx.counts {
            *self.counts.entry(k).or_insert(0) += v;
        }
        for (k, d) in cx.known_hits {
            let e = self.known.entry(k).or_insert((0, d));
            e.0 += 1;
        }
        for n in cx.notes {
            if self.notes.len() < 8 {
                self.notes.push(n);
            }
        }
    }
    fn merge(&mut self, o: Stats) {
        self.evaluations += o.evaluations;
        self.nontrivial += o.nontrivial;
        self.distinct.extend(o.distinct);
        for (k, v) in o.labels {
            *self.labels.entry(k).or_insert(0) += v;
        }
        for (k, v) in o.counts {
            *self.counts.entry(k).or_insert(0) += v;
        }
        for (k, (n, d)) in o.known {
            let e = self.known.entry(k).or_insert((0, d));
            e.0 += n;
        }
        for s in o.samples {
            if self.samples.len() < 12 {
                self.samples.push(s);
            }
        }
        for n in o.notes {
            if self.notes.len() < 8 {
                self.notes.push(n);
            }
        }
    }
}

fn exec<P: Property>(p: &P, case: &P::Case, open: &[String]) -> (Result<(), String>, Cx) {
    let mut cx = Cx { open_keys: open.to_vec(), ..Default::default() };
    let r = catch(|| p.run(case, &mut cx));
    let r = match r {
        Ok(r) => r,
        Err(panic_msg) => Err(format!("harness/contract panic outside a checked call: {}", panic_msg)),
    };
    (r, cx)
}

fn worker_seed(seed: u64, id: &str, worker: usize) -> [u8; 32] {
    let mut h = Sha256::new();
    h.update(seed.to_be_bytes());
    h.update(id.as_bytes());
    h.update((worker as u64).to_be_bytes());
    h.finalize().into()
}

pub struct Failure<C> {
    pub case: C,
    pub reason: String,
    pub shrink_steps: u32,
    pub origin: String,
}

pub fn jobs() -> usize {
    std::env::var("VERIF_JOBS")
        .ok()
        .and_then(|s| s.parse().ok())
        .unwrap_or_else(|| std::thread::available_parallelism().map(|n| n.get()).unwrap_or(8).min(16))
}

pub fn seed_from_env() -> u64 {
    std::env::var("VERIF_SEED").ok().and_then(|s| s.trim().parse::<i64>().ok()).map(|v| v as u64).unwrap_or(1)
}

/// Extra evidence keys supplied by a property's own side channels (e.g. the fuzz campaign).
pub type Extra = BTreeMap<String, serde_json::Value>;

pub fn run_property<P: Property>(p: P, tier: Tier, seed: u64, extra: Extra) -> i32 {
    let start = Instant::now();
    let id = p.id();
    let known = load_known();
    let open: Vec<String> = known
        .iter()
        .filter(|k| k.property == id && k.status == "open")
        .map(|k| k.key.clone())
        .collect();
    let p = std::sync::Arc::new(p);
    let stop = AtomicBool::new(false);
    let total = Mutex::new(Stats::default());
    let failure: Mutex<Option<Failure<P::Case>>> = Mutex::new(None);

    // 1. committed corpus (shrunk failures of earlier runs) and fixed cases
    let mut fixed: Vec<(String, P::Case)> = vec![];
    let corpus_dir = verif_root().join("corpus").join(id);
    let mut corpus_n = 0u64;
    if let Ok(rd) = std::fs::read_dir(&corpus_dir) {
        let mut files: Vec<_> = rd.filter_map(|e| e.ok()).map(|e| e.path()).filter(|p| p.extension().map(|e| e == "json").unwrap_or(false)).collect();
        files.sort();
        for f in files {
            match read_case::<P::Case>(&f) {
                Ok(c) => {
                    corpus_n += 1;
                    fixed.push((format!("corpus:{}", f.display()), c));
                }
                Err(e) => {
                    eprintln!("skipping corpus file {}: {}", f.display(), e);
                }
            }
        }
    }
    // extra cases handed over by a side channel (e.g. crash inputs of the fuzz campaign)
    if let Ok(dir) = std::env::var("VERIF_EXTRA_CASES") {
        if let Ok(rd) = std::fs::read_dir(&dir) {
            let mut files: Vec<_> = rd.filter_map(|e| e.ok()).map(|e| e.path()).filter(|p| p.extension().map(|e| e == "json").unwrap_or(false)).collect();
            files.sort();
            for f in files {
                if let Ok(c) = read_case::<P::Case>(&f) {
                    fixed.push((format!("extra:{}", f.display()), c));
                }
            }
        }
    }
    let fixed_list = if std::env::var("VERIF_SKIP_FIXED").is_ok() { vec![] } else { p.fixed_cases(tier) };
    let fixed_n = fixed_list.len() as u64;
    for (i, c) in fixed_list.into_iter().enumerate() {
        fixed.push((format!("fixed:{}", i), c));
    }

    let njobs = jobs();
    // fixed cases in parallel chunks
    {
        let chunks: Vec<Vec<(String, P::Case)>> = {
            let mut v: Vec<Vec<(String, P::Case)>> = (0..njobs).map(|_| vec![]).collect();
            for (i, c) in fixed.into_iter().enumerate() {
                v[i % njobs].push(c);
            }
            v
        };
        std::thread::scope(|s| {
            for chunk in chunks {
                let p = p.clone();
                let open = &open;
                let stop = &stop;
                let total = &total;
                let failure = &failure;
                s.spawn(move || {
                    let mut st = Stats::default();
                    for (origin, case) in chunk {
                        if stop.load(Ordering::Relaxed) {
                            break;
                        }
                        let (r, cx) = exec(&*p, &case, open);
                        st.absorb(&case, cx, 6);
                        if let Err(reason) = r {
                            stop.store(true, Ordering::Relaxed);
                            let mut f = failure.lock().unwrap();
                            if f.is_none() {
                                *f = Some(Failure { case, reason, shrink_steps: 0, origin });
                            }
                            break;
                        }
                    }
                    total.lock().unwrap().merge(st);
                });
            }
        });
    }

    // 2. random search
    let n = p.cases(tier);
    if !stop.load(Ordering::Relaxed) && n > 0 {
        std::thread::scope(|s| {
            for w in 0..njobs {
                let p = p.clone();
                let open = &open;
                let stop = &stop;
                let total = &total;
                let failure = &failure;
                let share = n / njobs as u64 + if (w as u64) < n % njobs as u64 { 1 } else { 0 };
                s.spawn(move || {
                    let strategy = p.strategy(tier);
                    let cfg = Config { failure_persistence: None, ..Config::default() };
                    let rng = TestRng::from_seed(RngAlgorithm::ChaCha, &worker_seed(seed, p.id(), w));
                    let mut runner = TestRunner::new_with_rng(cfg, rng);
                    let mut st = Stats::default();
                    for i in 0..share {
                        if stop.load(Ordering::Relaxed) {
                            break;
                        }
                        let mut tree = match strategy.new_tree(&mut runner) {
                            Ok(t) => t,
                            Err(e) => {
                                eprintln!("strategy rejected: {}", e);
                                continue;
                            }
                        };
                        let case = tree.current();
                        let (r, cx) = exec(&*p, &case, open);
                        st.absorb(&case, cx, 6);
                        if let Err(reason) = r {
                            stop.store(true, Ordering::Relaxed);
                            // shrink (not counted)
                            let mut best = (case, reason);
                            let mut steps = 0u32;
                            let t0 = Instant::now();
                            if tree.simplify() {
                                loop {
                                    steps += 1;
                                    if steps > 2000 || t0.elapsed().as_secs() > 120 {
                                        break;
                                    }
                                    let cur = tree.current();
                                    let (r, _) = exec(&*p, &cur, open);
                                    match r {
                                        Ok(()) => {
                                            if !tree.complicate() {
                                                break;
                                            }
                                        }
                                        Err(reason) => {
                                            best = (cur, reason);
                                            if !tree.simplify() {
                                                break;
                                            }
                                        }
                                    }
                                }
                            }
                            let mut f = failure.lock().unwrap();
                            if f.is_none() {
                                *f = Some(Failure {
                                    case: best.0,
                                    reason: best.1,
                                    shrink_steps: steps,
                                    origin: format!("random worker={} index={}", w, i),
                                });
                            }
                            break;
                        }
                    }
                    total.lock().unwrap().merge(st);
                });
            }
        });
    }

    let st = total.into_inner().unwrap();
    let failure = failure.into_inner().unwrap();
    let wall = start.elapsed().as_secs_f64();

    // evidence
    let mut cov = serde_json::Map::new();
    cov.insert("evaluations".into(), st.evaluations.into());
    cov.insert("distinct_nontrivial".into(), (st.distinct.len() as u64).into());
    cov.insert("nontrivial_total".into(), st.nontrivial.into());
    cov.insert("rule".into(), p.rule().into());
    cov.insert("samples".into(), serde_json::Value::Array(st.samples.clone()));
    cov.insert("labels".into(), serde_json::to_value(&st.labels).unwrap());
    cov.insert("oracle_outcomes".into(), serde_json::to_value(&st.counts).unwrap());
    cov.insert("corpus_cases_replayed".into(), corpus_n.into());
    cov.insert("fixed_cases".into(), fixed_n.into());
    if let Some(what) = p.fixed_is_exhaustive() {
        cov.insert("exhaustive_part".into(), what.into());
    }
    cov.insert("exhaustive".into(), false.into());
    let kh: BTreeMap<String, u64> = st.known.iter().map(|(k, v)| (k.clone(), v.0)).collect();
    cov.insert("known_finding_hits".into(), serde_json::to_value(&kh).unwrap());
    cov.insert("workers".into(), (njobs as u64).into());
    if !st.notes.is_empty() {
        cov.insert("notes".into(), serde_json::to_value(&st.notes).unwrap());
    }
    for (k, v) in extra {
        cov.insert(k, v);
    }
    if let Ok(f) = std::env::var("VERIF_EXTRA_EVIDENCE") {
        if let Ok(text) = std::fs::read_to_string(&f) {
            if let Ok(serde_json::Value::Object(m)) = serde_json::from_str::<serde_json::Value>(&text) {
                for (k, v) in m {
                    cov.insert(k, v);
                }
            }
        }
    }
    let mut assumptions: Vec<String> = p.assumptions().iter().map(|s| s.to_string()).collect();
    assumptions.push("contracts run natively under the soroban-sdk 22 test host (no wasm32 build of the current source)".into());
    assumptions.push("host crypto (ed25519-dalek verify_strict, Keccak) and the host's authorisation framework are trusted".into());
    let ev = serde_json::json!({
        "property_id": id,
        "tier": tier.name(),
        "seed": seed as i64,
        "level": "exploration",
        "coverage": serde_json::Value::Object(cov),
        "assumptions": assumptions,
        "wall_s": wall,
        "violations": if failure.is_some() { 1 } else { 0 },
    });
    let skip_evidence = std::env::var("VERIF_NO_EVIDENCE").is_ok();
    let evdir = verif_root().join(if skip_evidence { "replays/evidence-scratch" } else { "evidence" });
    let _ = std::fs::create_dir_all(&evdir);
    let evpath = evdir.join(format!("{}.json", id));
    if let Err(e) = std::fs::write(&evpath, serde_json::to_string_pretty(&ev).unwrap()) {
        eprintln!("cannot write evidence {}: {}", evpath.display(), e);
        return 2;
    }

    println!(
        "property={} tier={} seed={} evaluations={} nontrivial={} distinct_nontrivial={} wall_s={:.1}",
        id,
        tier.name(),
        seed,
        st.evaluations,
        st.nontrivial,
        st.distinct.len(),
        wall
    );
    for (k, (n, d)) in &st.known {
        let what = known.iter().find(|f| f.property == id && &f.key == k).map(|f| f.what.clone()).unwrap_or_default();
        let d: String = d.chars().take(200).collect();
        println!("KNOWN-FINDING: property={} key={} hits={} {} (e.g. {})", id, k, n, what, d);
    }
    if let Some(f) = failure {
        let body = serde_json::json!({
            "property_id": id,
            "reason": f.reason,
            "origin": f.origin,
            "shrink_steps": f.shrink_steps,
            "seed": seed as i64,
            "tier": tier.name(),
            "case": serde_json::to_value(&f.case).unwrap(),
        });
        let text = serde_json::to_string_pretty(&body).unwrap();
        let mut h = Sha256::new();
        h.update(serde_json::to_string(&body["case"]).unwrap().as_bytes());
        let dg = hex::encode(&h.finalize()[..6]);
        let dir = verif_root().join("replays");
        let _ = std::fs::create_dir_all(&dir);
        let path = dir.join(format!("{}-{}.json", id, dg));
        let _ = std::fs::write(&path, text);
        println!("reason: {}", f.reason);
        println!("VIOLATION property={} replay={}", id, path.display());
        return 1;
    }
    0
}

fn read_case<C: DeserializeOwned>(path: &Path) -> Result<C, String> {
    let s = std::fs::read_to_string(path).map_err(|e| e.to_string())?;
    let v: serde_json::Value = serde_json::from_str(&s).map_err(|e| e.to_string())?;
    let c = if v.get("case").is_some() && v.get("property_id").is_some() { v["case"].clone() } else { v };
    serde_json::from_value(c).map_err(|e| e.to_string())
}

/// Replay one saved case, bypassing proptest.
pub fn replay_property<P: Property>(p: P, path: &Path) -> i32 {
    let id = p.id();
    let known = load_known();
    let open: Vec<String> = known.iter().filter(|k| k.property == id && k.status == "open").map(|k| k.key.clone()).collect();
    let case: P::Case = match read_case(path) {
        Ok(c) => c,
        Err(e) => {
            eprintln!("cannot read case {}: {}", path.display(), e);
            return 2;
        }
    };
    let (r, cx) = exec(&p, &case, &open);
    for (k, d) in &cx.known_hits {
        println!("KNOWN-FINDING: property={} key={} {}", id, k, d);
    }
    println!("labels: {:?}", cx.labels);
    match r {
        Ok(()) => {
            println!("replay passed: property={} file={}", id, path.display());
            0
        }
        Err(reason) => {
            println!("reason: {}", reason);
            println!("VIOLATION property={} replay={}", id, path.display());
            1
        }
    }
}

// ---------------------------------------------------------------------------------------------
// coverage-guided fuzzing: the fuzzer's bytes are the random choices of the property's own strategy

static FUZZ_MODE: std::sync::atomic::AtomicBool = std::sync::atomic::AtomicBool::new(false);

/// In fuzz mode every random choice must be read from the one byte stream, in order. proptest's own union
/// (`prop_oneof!`, `option::of`, `prop_flat_map`) forks the runner's RNG for lazily built shrink neighbours,
/// which with the pass-through RNG halves the remaining input at every union. `OneOf` is the harness's union:
/// outside fuzz mode it *is* proptest's weighted union (same distribution, same shrinking); in fuzz mode it picks
/// an alternative from the stream and builds only that one.
pub fn set_fuzz_mode(on: bool) {
    FUZZ_MODE.store(on, Ordering::Relaxed);
}

pub struct OneOf<T: Debug + 'static> {
    alts: Vec<(u32, BoxedStrategy<T>)>,
    normal: BoxedStrategy<T>,
}

impl<T: Debug + 'static> Debug for OneOf<T> {
    fn fmt(&self, f: &mut std::fmt::Formatter<'_>) -> std::fmt::Result {
        write!(f, "OneOf({} alternatives)", self.alts.len())
    }
}

impl<T: Debug + 'static> OneOf<T> {
    pub fn new(alts: Vec<(u32, BoxedStrategy<T>)>) -> Self {
        let normal = proptest::strategy::Union::new_weighted(alts.clone()).boxed();
        OneOf { alts, normal }
    }
}

impl<T: Debug + 'static> Strategy for OneOf<T> {
    type Tree = Box<dyn proptest::strategy::ValueTree<Value = T>>;
    type Value = T;
    fn new_tree(&self, runner: &mut proptest::test_runner::TestRunner) -> proptest::strategy::NewTree<Self> {
        if !FUZZ_MODE.load(Ordering::Relaxed) {
            return self.normal.new_tree(runner);
        }
        use proptest::prelude::RngCore;
        let total: u64 = self.alts.iter().map(|(w, _)| *w as u64).sum();
        let mut pick = (runner.rng().next_u32() as u64 * total) >> 32;
        for (w, s) in &self.alts {
            if pick < *w as u64 {
                return s.new_tree(runner);
            }
            pick -= *w as u64;
        }
        self.alts.last().unwrap().1.new_tree(runner)
    }
}

/// `proptest::option::of` without the RNG fork (see `OneOf`)
pub fn opt_of<S: Strategy + 'static>(s: S) -> OneOf<Option<S::Value>>
where
    S::Value: Debug + Clone + 'static,
{
    OneOf::new(vec![(1, proptest::strategy::Just(None).boxed()), (1, s.prop_map(Some).boxed())])
}

/// the harness's `prop_oneof!`: same syntax as proptest's, builds a `OneOf`
#[macro_export]
macro_rules! prop_oneof {
    ($($w:expr => $s:expr),+ $(,)?) => {
        $crate::engine::OneOf::new(vec![$(($w as u32, proptest::strategy::Strategy::boxed($s))),+])
    };
    ($($s:expr),+ $(,)?) => {
        $crate::engine::OneOf::new(vec![$((1u32, proptest::strategy::Strategy::boxed($s))),+])
    };
}

thread_local! {
    static FUZZ_STRATEGY: RefCell<Option<Box<dyn std::any::Any>>> = const { RefCell::new(None) };
    static FUZZ_OPEN: RefCell<Option<Vec<String>>> = const { RefCell::new(None) };
}

/// Generate one case of `p` from `data` (proptest's pass-through RNG: every random choice the strategy
/// makes reads the next bytes of `data`, zeros when exhausted) and run it. Returns the failure, if any,
/// as (case JSON, reason).
pub fn fuzz_one<P: Property>(p: &P, data: &[u8]) -> Option<(String, String)> {
    set_fuzz_mode(true);
    use proptest::strategy::ValueTree;
    use proptest::test_runner::{Config, RngAlgorithm, TestRng, TestRunner};
    let open: Vec<String> = FUZZ_OPEN.with(|o| {
        let mut o = o.borrow_mut();
        if o.is_none() {
            *o = Some(load_known().iter().filter(|k| k.property == p.id() && k.status == "open").map(|k| k.key.clone()).collect());
        }
        o.clone().unwrap()
    });
    let case: P::Case = FUZZ_STRATEGY.with(|st| {
        let mut st = st.borrow_mut();
        if st.is_none() {
            *st = Some(Box::new(p.strategy(Tier::Thorough)));
        }
        let strat = st.as_ref().unwrap().downcast_ref::<BoxedStrategy<P::Case>>().expect("one property per process");
        let rng = TestRng::from_seed(RngAlgorithm::PassThrough, data);
        let mut runner = TestRunner::new_with_rng(Config { failure_persistence: None, ..Config::default() }, rng);
        strat.new_tree(&mut runner).ok().map(|t| t.current())
    })?;
    if std::env::var("VFUZZ_DEBUG").is_ok() {
        let j = serde_json::to_string(&case).unwrap_or_default();
        eprintln!("case: {}", &j[..j.len().min(600)]);
    }
    let (r, _cx) = exec(p, &case, &open);
    match r {
        Ok(()) => None,
        Err(reason) => Some((serde_json::to_string(&case).unwrap_or_default(), reason)),
    }
}

/// How many of `n` recorded random cases are regenerated identically from their recorded bytes.
pub fn fuzz_roundtrip<P: Property>(p: &P, n: usize) -> (usize, Option<(String, String)>) {
    set_fuzz_mode(true);
    use proptest::strategy::ValueTree;
    use proptest::test_runner::{Config, RngAlgorithm, TestRng, TestRunner};
    let strat = p.strategy(Tier::Thorough);
    let mut same = 0;
    let mut first_diff = None;
    for i in 0..n {
        let mut s = [0u8; 32];
        s[..8].copy_from_slice(&(i as u64 + 1).to_le_bytes());
        let mut r1 = TestRunner::new_with_rng(Config { failure_persistence: None, ..Config::default() }, TestRng::from_seed(RngAlgorithm::Recorder, &s));
        let a = strat.new_tree(&mut r1).unwrap().current();
        let bytes = r1.bytes_used();
        let mut r2 = TestRunner::new_with_rng(Config { failure_persistence: None, ..Config::default() }, TestRng::from_seed(RngAlgorithm::PassThrough, &bytes));
        let b = strat.new_tree(&mut r2).unwrap().current();
        let (ja, jb) = (serde_json::to_string(&a).unwrap(), serde_json::to_string(&b).unwrap());
        if ja == jb {
            same += 1;
        } else if first_diff.is_none() {
            first_diff = Some((ja, jb));
        }
    }
    (same, first_diff)
}

/// Bytes that make `fuzz_one` generate ordinary random cases (recorded from the ChaCha generator): a starting corpus.
pub fn fuzz_seed_inputs<P: Property>(p: &P, n: usize, seed: u64) -> Vec<Vec<u8>> {
    set_fuzz_mode(true);
    use proptest::test_runner::{Config, RngAlgorithm, TestRng, TestRunner};
    let strat = p.strategy(Tier::Thorough);
    let mut out = vec![];
    for i in 0..n {
        let mut s = [0u8; 32];
        s[..8].copy_from_slice(&seed.to_le_bytes());
        s[8..16].copy_from_slice(&(i as u64).to_le_bytes());
        let rng = TestRng::from_seed(RngAlgorithm::Recorder, &s);
        let mut runner = TestRunner::new_with_rng(Config { failure_persistence: None, ..Config::default() }, rng);
        if strat.new_tree(&mut runner).is_ok() {
            out.push(runner.bytes_used());
        }
    }
    out
}

#[macro_export]
macro_rules! ensure_p {
    ($cond:expr, $($arg:tt)*) => {
        if !($cond) {
            return Err(format!($($arg)*));
        }
    };
}


/// Histories in which an operation is issued twice in a row (the same request again: a retry, a double click, a relayer
/// resubmitting): for every entry of `reps` a copy of the operation at that (wrapped) position is inserted right after it.
pub fn with_repeats<T: Clone>(mut ops: Vec<T>, reps: &[u16]) -> Vec<T> {
    for r in reps {
        if ops.is_empty() {
            break;
        }
        let i = *r as usize % ops.len();
        let c = ops[i].clone();
        ops.insert(i + 1, c);
    }
    ops
}

/// strategy for the `reps` argument of `with_repeats`: mostly none, sometimes one to three repeats
pub fn repeats() -> proptest::strategy::BoxedStrategy<Vec<u16>> {
    use proptest::prelude::*;
    crate::prop_oneof![2 => Just(vec![]), 1 => proptest::collection::vec(any::<u16>(), 1..4)].boxed()
}
