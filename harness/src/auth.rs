// authorisation recording / replay helpers
