//! Authorisation recording / substitution / replay (DESIGN §1.5).
//!
//! `record` runs a call with every authorisation mocked and returns, as XDR (env-independent),
//! the invocation tree each address had to authorise. `install` makes exactly the given
//! (address, tree) pairs available in another Env, where every other `require_auth` fails.

use soroban_sdk::testutils::{AuthorizedFunction, AuthorizedInvocation};
use soroban_sdk::xdr::{
    InvokeContractArgs, ScAddress, ScVal, SorobanAddressCredentials, SorobanAuthorizationEntry, SorobanAuthorizedFunction,
    SorobanAuthorizedInvocation, SorobanCredentials,
};
use soroban_sdk::{contract, contractimpl, Address, Env, TryFromVal, Val};
use std::cell::Cell;

/// Account contract that accepts any signature: stands for "this address signed the entry".
#[contract]
pub struct AlwaysOkAccount;

#[contractimpl]
impl AlwaysOkAccount {
    #[allow(non_snake_case)]
    pub fn __check_auth(_signature_payload: Val, _signatures: Val, _auth_context: Val) {}
}

#[derive(Clone, Debug, PartialEq, Eq)]
pub struct Rec {
    pub address: ScAddress,
    pub tree: SorobanAuthorizedInvocation,
}

fn inv_to_xdr(env: &Env, inv: &AuthorizedInvocation) -> SorobanAuthorizedInvocation {
    let function = match &inv.function {
        AuthorizedFunction::Contract((addr, name, args)) => {
            let args: Vec<ScVal> = args.iter().map(|v| ScVal::try_from_val(env, &v).unwrap()).collect();
            SorobanAuthorizedFunction::ContractFn(InvokeContractArgs {
                contract_address: ScAddress::try_from(addr).unwrap(),
                function_name: name.to_string().as_str().try_into().unwrap(),
                args: args.try_into().unwrap(),
            })
        }
        AuthorizedFunction::CreateContractHostFn(a) => SorobanAuthorizedFunction::CreateContractHostFn(a.clone()),
        AuthorizedFunction::CreateContractV2HostFn(a) => SorobanAuthorizedFunction::CreateContractV2HostFn(a.clone()),
    };
    let subs: Vec<SorobanAuthorizedInvocation> = inv.sub_invocations.iter().map(|s| inv_to_xdr(env, s)).collect();
    SorobanAuthorizedInvocation { function, sub_invocations: subs.try_into().unwrap() }
}

/// Run `f` with all authorisations mocked (non-root ones included) and return what was required.
pub fn record<R>(env: &Env, f: impl FnOnce() -> R) -> (R, Vec<Rec>) {
    env.mock_all_auths_allowing_non_root_auth();
    let r = f();
    let recs = env
        .auths()
        .iter()
        .map(|(a, inv)| Rec { address: ScAddress::try_from(a).unwrap(), tree: inv_to_xdr(env, inv) })
        .collect();
    (r, recs)
}

thread_local! {
    static NONCE: Cell<i64> = const { Cell::new(1) };
}

fn has_instance(env: &Env, a: &Address) -> bool {
    crate::world::has_instance(env, a)
}

/// Make exactly these (authoriser, tree) pairs available; everything else is unauthorised.
/// Registers an accept-all account contract for authorisers that are not contracts yet
/// (harness bookkeeping; call this *before* taking "before" snapshots).
pub fn install(env: &Env, entries: &[(Address, SorobanAuthorizedInvocation)]) {
    let seq = env.ledger().sequence();
    let mut v = vec![];
    for (who, tree) in entries {
        if !has_instance(env, who) {
            env.register_at(who, AlwaysOkAccount, ());
        }
        let nonce = NONCE.with(|n| {
            let x = n.get();
            n.set(x + 1);
            x
        });
        v.push(SorobanAuthorizationEntry {
            credentials: SorobanCredentials::Address(SorobanAddressCredentials {
                address: ScAddress::try_from(who).unwrap(),
                nonce,
                signature_expiration_ledger: seq + 1000,
                signature: ScVal::Void,
            }),
            root_invocation: tree.clone(),
        });
    }
    env.set_auths(&v);
}

pub fn sc_to_address(env: &Env, a: &ScAddress) -> Address {
    Address::try_from_val(env, a).unwrap()
}

/// trees recorded for `holder`, to be signed by `principal` instead
pub fn readdress(env: &Env, recs: &[Rec], holder: &Address, principal: &Address) -> Vec<(Address, SorobanAuthorizedInvocation)> {
    let h = ScAddress::try_from(holder).unwrap();
    let _ = env;
    recs.iter().filter(|r| r.address == h).map(|r| (principal.clone(), r.tree.clone())).collect()
}

pub fn authorisers(recs: &[Rec]) -> Vec<ScAddress> {
    let mut v: Vec<ScAddress> = vec![];
    for r in recs {
        if !v.contains(&r.address) {
            v.push(r.address.clone());
        }
    }
    v
}

/// one authorisation-tree node built by hand (when the call cannot be recorded because it fails)
pub fn node(env: &Env, contract: &Address, func: &str, args: &soroban_sdk::Vec<Val>, subs: Vec<SorobanAuthorizedInvocation>) -> SorobanAuthorizedInvocation {
    let a: Vec<ScVal> = args.iter().map(|v| ScVal::try_from_val(env, &v).unwrap()).collect();
    SorobanAuthorizedInvocation {
        function: SorobanAuthorizedFunction::ContractFn(InvokeContractArgs {
            contract_address: ScAddress::try_from(contract).unwrap(),
            function_name: func.try_into().unwrap(),
            args: a.try_into().unwrap(),
        }),
        sub_invocations: subs.try_into().unwrap(),
    }
}
