//! Harness-defined contracts used as probes (callers, targets, apps). They are not part of the
//! code under test; they only give the checks a contract-shaped principal or observer.
//! Each contract lives in its own module (the contract macros generate per-function items).

#[allow(unused_imports)]
pub mod caller {
    use axelar_gateway::executable::AxelarExecutableInterface;
    use axelar_gateway::AxelarGatewayMessagingClient;
    use soroban_sdk::{contract, contractimpl, contracttype, Address, Bytes, BytesN, Env, String, Symbol, Val, Vec};

    // Caller: a contract that talks to the gateway as itself (no authorisation entries needed) or
    // names another address (must be refused unless that address authorised).

    #[contract]
    pub struct Caller;

    #[contractimpl]
    impl Caller {
        pub fn consume(env: Env, gateway: Address, chain: String, id: String, src: String, ph: BytesN<32>) -> bool {
            AxelarGatewayMessagingClient::new(&env, &gateway).validate_message(&env.current_contract_address(), &chain, &id, &src, &ph)
        }
        pub fn consume_as(env: Env, gateway: Address, who: Address, chain: String, id: String, src: String, ph: BytesN<32>) -> bool {
            AxelarGatewayMessagingClient::new(&env, &gateway).validate_message(&who, &chain, &id, &src, &ph)
        }
        pub fn send(env: Env, gateway: Address, chain: String, addr: String, payload: Bytes) {
            AxelarGatewayMessagingClient::new(&env, &gateway).call_contract(&env.current_contract_address(), &chain, &addr, &payload)
        }
        pub fn send_as(env: Env, gateway: Address, who: Address, chain: String, addr: String, payload: Bytes) {
            AxelarGatewayMessagingClient::new(&env, &gateway).call_contract(&who, &chain, &addr, &payload)
        }
        /// generic: invoke `func` on `target` with `args` from this contract
        pub fn relay(env: Env, target: Address, func: Symbol, args: Vec<Val>) -> Val {
            env.invoke_contract(&target, &func, args)
        }
    }

}
pub use caller::*;

#[allow(unused_imports)]
pub mod target {
    use axelar_gateway::executable::AxelarExecutableInterface;
    use axelar_gateway::AxelarGatewayMessagingClient;
    use soroban_sdk::{contract, contractimpl, contracttype, Address, Bytes, BytesN, Env, String, Symbol, Val, Vec};

    // Target for the operators contract (C17)

    #[contracttype]
    #[derive(Clone, Debug, PartialEq, Eq)]
    pub struct CallRecord {
        pub func: Symbol,
        pub args: Vec<Val>,
    }

    #[contracttype]
    pub enum TargetKey {
        Log,
    }

    #[contract]
    pub struct Target;

    impl Target {
        fn record(env: &Env, func: &str, args: Vec<Val>) {
            let mut log: Vec<CallRecord> = env.storage().instance().get(&TargetKey::Log).unwrap_or(Vec::new(env));
            log.push_back(CallRecord { func: Symbol::new(env, func), args });
            env.storage().instance().set(&TargetKey::Log, &log);
        }
    }

    #[contractimpl]
    impl Target {
        pub fn log(env: Env) -> Vec<CallRecord> {
            env.storage().instance().get(&TargetKey::Log).unwrap_or(Vec::new(&env))
        }
        pub fn echo1(env: Env, a: Val) -> Val {
            Self::record(&env, "echo1", Vec::from_array(&env, [a]));
            a
        }
        pub fn echo3(env: Env, a: Val, b: Val, c: Val) -> Val {
            Self::record(&env, "echo3", Vec::from_array(&env, [a, b, c]));
            b
        }
        pub fn sum(env: Env, a: u32, b: u32) -> u32 {
            use soroban_sdk::IntoVal;
            Self::record(&env, "sum", Vec::from_array(&env, [a.into_val(&env), b.into_val(&env)]));
            a.wrapping_add(b)
        }
        pub fn noargs(env: Env) -> u64 {
            Self::record(&env, "noargs", Vec::new(&env));
            0xdead_beef_u64
        }
        pub fn store(env: Env, data: Bytes) {
            use soroban_sdk::IntoVal;
            Self::record(&env, "store", Vec::from_array(&env, [data.into_val(&env)]));
        }
        pub fn fail(env: Env, a: u32) -> u32 {
            use soroban_sdk::IntoVal;
            Self::record(&env, "fail", Vec::from_array(&env, [a.into_val(&env)]));
            panic!("target failure")
        }
    }

}
pub use target::*;

#[allow(unused_imports)]
pub mod miniapp {
    use axelar_gateway::executable::AxelarExecutableInterface;
    use axelar_gateway::AxelarGatewayMessagingClient;
    use soroban_sdk::{contract, contractimpl, contracttype, Address, Bytes, BytesN, Env, String, Symbol, Val, Vec};

    // Minimal executable app using the interface's validation helper (C16)

    #[contracttype]
    pub enum AppKey {
        Gateway,
        Count,
    }

    #[contract]
    pub struct MiniApp;

    #[contractimpl]
    impl MiniApp {
        pub fn __constructor(env: Env, gateway: Address) {
            env.storage().instance().set(&AppKey::Gateway, &gateway);
        }
        pub fn count(env: Env) -> u32 {
            env.storage().instance().get(&AppKey::Count).unwrap_or(0)
        }
    }

    #[contractimpl]
    impl AxelarExecutableInterface for MiniApp {
        fn gateway(env: &Env) -> Address {
            env.storage().instance().get(&AppKey::Gateway).unwrap()
        }
        fn execute(env: Env, source_chain: String, message_id: String, source_address: String, payload: Bytes) {
            if Self::validate_message(&env, &source_chain, &message_id, &source_address, &payload).is_err() {
                panic!("not approved");
            }
            let c: u32 = env.storage().instance().get(&AppKey::Count).unwrap_or(0);
            env.storage().instance().set(&AppKey::Count, &(c + 1));
            env.events().publish((Symbol::new(&env, "miniapp_executed"), source_chain, message_id, source_address), payload);
        }
    }

}
pub use miniapp::*;

#[allow(unused_imports)]
pub mod factory {
    use axelar_gateway::executable::AxelarExecutableInterface;
    use axelar_gateway::AxelarGatewayMessagingClient;
    use soroban_sdk::{contract, contractimpl, contracttype, Address, Bytes, BytesN, Env, String, Symbol, Val, Vec};

    // Factory: deploys through the host's real create-contract path (atomic on failure)

    #[contract]
    pub struct Factory;

    #[contractimpl]
    impl Factory {
        pub fn deploy(env: Env, wasm_hash: BytesN<32>, salt: BytesN<32>, args: Vec<Val>) -> Address {
            env.deployer().with_current_contract(salt).deploy_v2(wasm_hash, args)
        }
    }

}
pub use factory::*;

#[allow(unused_imports)]
pub mod tokenexec {
    use axelar_gateway::executable::AxelarExecutableInterface;
    use axelar_gateway::AxelarGatewayMessagingClient;
    use soroban_sdk::{contract, contractimpl, contracttype, Address, Bytes, BytesN, Env, String, Symbol, Val, Vec};

    // Interchain-token executable probe (receives ITS transfers with data)

    #[contracttype]
    #[derive(Clone, Debug, PartialEq, Eq)]
    pub struct ExecRecord {
        pub source_chain: String,
        pub message_id: String,
        pub source_address: Bytes,
        pub payload: Bytes,
        pub token_id: BytesN<32>,
        pub token_address: Address,
        pub amount: i128,
        /// the probe's token balance at the time of the call (funds must already have arrived)
        pub balance_seen: i128,
    }

    #[contracttype]
    pub enum ExecKey {
        Its,
        Log,
    }

    #[contract]
    pub struct TokenExec;

    #[contractimpl]
    impl TokenExec {
        pub fn __constructor(env: Env, its: Address) {
            env.storage().instance().set(&ExecKey::Its, &its);
        }
        pub fn log(env: Env) -> Vec<ExecRecord> {
            env.storage().instance().get(&ExecKey::Log).unwrap_or(Vec::new(&env))
        }
        pub fn interchain_token_service(env: Env) -> Address {
            env.storage().instance().get(&ExecKey::Its).unwrap()
        }
        pub fn execute_with_interchain_token(
            env: Env,
            source_chain: String,
            message_id: String,
            source_address: Bytes,
            payload: Bytes,
            token_id: BytesN<32>,
            token_address: Address,
            amount: i128,
        ) {
            let its: Address = env.storage().instance().get(&ExecKey::Its).unwrap();
            its.require_auth();
            let balance_seen = soroban_sdk::token::TokenClient::new(&env, &token_address).balance(&env.current_contract_address());
            let mut log: Vec<ExecRecord> = env.storage().instance().get(&ExecKey::Log).unwrap_or(Vec::new(&env));
            log.push_back(ExecRecord { source_chain, message_id, source_address, payload, token_id, token_address, amount, balance_seen });
            env.storage().instance().set(&ExecKey::Log, &log);
        }
    }
}
pub use tokenexec::*;

#[allow(unused_imports)]
pub mod metatoken {
    use soroban_sdk::{contract, contractimpl, contracttype, Address, Env, String};

    #[contracttype]
    pub enum MetaKey {
        Name,
        Symbol,
        Decimals,
        /// (fickle mode) metadata reported after `SwitchAfter` reads, and the reads so far
        AltName,
        AltSymbol,
        AltDecimals,
        SwitchAfter,
        Reads,
    }

    /// A "token" whose metadata is whatever the test says (possibly unrepresentable remotely).
    #[contract]
    pub struct MetaToken;

    #[contractimpl]
    impl MetaToken {
        pub fn __constructor(env: Env, name: String, symbol: String, decimals: u32) {
            env.storage().instance().set(&MetaKey::Name, &name);
            env.storage().instance().set(&MetaKey::Symbol, &symbol);
            env.storage().instance().set(&MetaKey::Decimals, &decimals);
        }
        /// does this read (of any metadata getter) come after the switch? counts the read
        fn switched(env: &Env) -> bool {
            let after: Option<u32> = env.storage().instance().get(&MetaKey::SwitchAfter);
            match after {
                None => false,
                Some(n) => {
                    let reads: u32 = env.storage().instance().get(&MetaKey::Reads).unwrap_or(0);
                    env.storage().instance().set(&MetaKey::Reads, &(reads + 1));
                    reads >= n
                }
            }
        }
        pub fn name(env: Env) -> String {
            let k = if Self::switched(&env) { MetaKey::AltName } else { MetaKey::Name };
            env.storage().instance().get(&k).unwrap()
        }
        pub fn symbol(env: Env) -> String {
            let k = if Self::switched(&env) { MetaKey::AltSymbol } else { MetaKey::Symbol };
            env.storage().instance().get(&k).unwrap()
        }
        pub fn decimals(env: Env) -> u32 {
            let k = if Self::switched(&env) { MetaKey::AltDecimals } else { MetaKey::Decimals };
            env.storage().instance().get(&k).unwrap()
        }
        pub fn balance(_env: Env, _id: Address) -> i128 {
            0
        }
        /// a token that answers differently from its n-th metadata read on (counted from now)
        pub fn make_fickle(env: Env, after_reads: u32, name: String, symbol: String, decimals: u32) {
            env.storage().instance().set(&MetaKey::AltName, &name);
            env.storage().instance().set(&MetaKey::AltSymbol, &symbol);
            env.storage().instance().set(&MetaKey::AltDecimals, &decimals);
            env.storage().instance().set(&MetaKey::SwitchAfter, &after_reads);
            env.storage().instance().set(&MetaKey::Reads, &0u32);
        }
        /// a token whose issuer can rename it
        pub fn set_metadata(env: Env, name: String, symbol: String, decimals: u32) {
            env.storage().instance().set(&MetaKey::Name, &name);
            env.storage().instance().set(&MetaKey::Symbol, &symbol);
            env.storage().instance().set(&MetaKey::Decimals, &decimals);
        }
    }
}
pub use metatoken::*;
#[allow(unused_imports)]
pub mod derivedprobe {
    //! A contract that gets its owner / upgrade / migrate entry points from the repo's derive macros.
    use axelar_soroban_std::{interfaces, Ownable, Upgradable};
    use soroban_sdk::{contract, contracterror, contractimpl, Address, Env};

    #[contracterror]
    #[derive(Copy, Clone, Debug, Eq, PartialEq, PartialOrd, Ord)]
    #[repr(u32)]
    pub enum ContractError {
        MigrationNotAllowed = 1,
    }

    #[contract]
    #[derive(Ownable, Upgradable)]
    #[migratable(with_type = Option<Address>)]
    pub struct DerivedProbe;

    #[contractimpl]
    impl DerivedProbe {
        pub fn __constructor(env: Env, owner: Address) {
            interfaces::set_owner(&env, &owner);
        }
    }

    impl DerivedProbe {
        /// a migration that does something: it may hand the contract to a new owner named in the migration data
        fn run_migration(env: &Env, new_owner: Option<Address>) {
            if let Some(o) = new_owner {
                interfaces::set_owner(env, &o);
            }
        }
    }
}
pub use derivedprobe::DerivedProbe;

#[allow(unused_imports)]
pub mod verprobe {
    //! Upgradable target with configurable version / migration behaviour, for the Upgrader matrix.
    use axelar_soroban_std::interfaces;
    use soroban_sdk::{contract, contractimpl, contracttype, Address, BytesN, Env, String};

    #[contracttype]
    pub enum VKey {
        Version,
        Data,
    }

    #[contract]
    pub struct VerProbe;

    #[contractimpl]
    impl VerProbe {
        pub fn __constructor(env: Env, owner: Address, version: String) {
            interfaces::set_owner(&env, &owner);
            env.storage().instance().set(&VKey::Version, &version);
        }
        pub fn owner(env: Env) -> Address {
            interfaces::owner(&env)
        }
        pub fn transfer_ownership(env: Env, new_owner: Address) {
            interfaces::owner(&env).require_auth();
            interfaces::set_owner(&env, &new_owner);
        }
        /// (whatever is stored: a string unless the "new code" stored something else; fails if nothing is stored)
        pub fn version(env: Env) -> soroban_sdk::Val {
            env.storage().instance().get::<_, soroban_sdk::Val>(&VKey::Version).unwrap()
        }
        pub fn data(env: Env) -> Option<u32> {
            env.storage().instance().get(&VKey::Data)
        }
        pub fn upgrade(env: Env, new_wasm_hash: BytesN<32>) {
            interfaces::owner(&env).require_auth();
            env.deployer().update_current_contract_wasm(new_wasm_hash);
        }
        /// "new code": sets the version it was told to report, stores data, may fail
        pub fn migrate(env: Env, new_version: String, data: u32, fail: bool) {
            interfaces::owner(&env).require_auth();
            if fail {
                panic!("migration failed");
            }
            // "" = the new code has no working `version` entry point; "#" = its `version` returns a number
            if new_version.len() == 0 {
                env.storage().instance().remove(&VKey::Version);
            } else if new_version == String::from_str(&env, "#") {
                env.storage().instance().set(&VKey::Version, &7u32);
            } else {
                env.storage().instance().set(&VKey::Version, &new_version);
            }
            env.storage().instance().set(&VKey::Data, &data);
        }
    }
}
pub use verprobe::{VerProbe, VerProbeClient};

#[allow(unused_imports)]
pub mod dummylike {
    //! Native stand-in for the upgrader test-suite's dummy contract (version 0.1.0), to be upgraded to
    //! the committed dummy.wasm (version 0.2.0, migrate(String)).
    use axelar_soroban_std::interfaces;
    use soroban_sdk::{contract, contractimpl, Address, BytesN, Env, String};

    #[contract]
    pub struct DummyLike;

    #[contractimpl]
    impl DummyLike {
        pub fn __constructor(env: Env, owner: Address) {
            interfaces::set_owner(&env, &owner);
        }
        pub fn owner(env: Env) -> Address {
            interfaces::owner(&env)
        }
        pub fn transfer_ownership(env: Env, new_owner: Address) {
            interfaces::owner(&env).require_auth();
            interfaces::set_owner(&env, &new_owner);
        }
        pub fn version(env: Env) -> String {
            String::from_str(&env, "0.1.0")
        }
        pub fn upgrade(env: Env, new_wasm_hash: BytesN<32>) {
            interfaces::owner(&env).require_auth();
            env.deployer().update_current_contract_wasm(new_wasm_hash);
        }
    }
}
pub use dummylike::DummyLike;
#[allow(unused_imports)]
pub mod sloppytoken {
    //! A minimal token that keeps balances but does not check amounts (no sign check, no balance
    //! check): contracts that accept arbitrary token addresses must make their own checks.
    use soroban_sdk::{contract, contractimpl, contracttype, Address, Env};

    #[contracttype]
    pub enum SKey {
        Bal(Address),
    }

    #[contract]
    pub struct SloppyToken;

    #[contractimpl]
    impl SloppyToken {
        pub fn balance(env: Env, id: Address) -> i128 {
            env.storage().persistent().get(&SKey::Bal(id)).unwrap_or(0)
        }
        pub fn mint(env: Env, to: Address, amount: i128) {
            let b: i128 = env.storage().persistent().get(&SKey::Bal(to.clone())).unwrap_or(0);
            env.storage().persistent().set(&SKey::Bal(to), &(b + amount));
        }
        pub fn transfer(env: Env, from: Address, to: Address, amount: i128) {
            from.require_auth();
            let fb: i128 = env.storage().persistent().get(&SKey::Bal(from.clone())).unwrap_or(0);
            env.storage().persistent().set(&SKey::Bal(from), &(fb - amount));
            let tb: i128 = env.storage().persistent().get(&SKey::Bal(to.clone())).unwrap_or(0);
            env.storage().persistent().set(&SKey::Bal(to), &(tb + amount));
        }
    }
}
pub use sloppytoken::{SloppyToken, SloppyTokenClient};
#[allow(unused_imports)]
pub mod laxtoken {
    //! A "token" anybody can deploy: its `transfer` asks nobody for authorisation and moves nothing. Offered as gas
    //! token, it shows whether a contract relies on the token to authenticate the payer.
    use soroban_sdk::{contract, contractimpl, Address, Env};

    #[contract]
    pub struct LaxToken;

    #[contractimpl]
    impl LaxToken {
        pub fn balance(_env: Env, _id: Address) -> i128 {
            1_000_000
        }
        pub fn transfer(_env: Env, _from: Address, _to: Address, _amount: i128) {}
    }
}
pub use laxtoken::LaxToken;
