//! The harness as a library (the `vcheck` binary and the coverage-guided fuzz target both use it).
#![allow(dead_code)]
pub mod auth;
pub mod engine;
pub mod itsw;
pub mod oracle;
pub mod probes;
pub mod props;
pub mod sweep;
pub mod sys;
pub mod world;
