//! Independent oracles: Keccak-256, XDR ScVal writer, Solidity ABI codec for the ITS structs,
//! contract-address derivation. None of them calls the code under test or the host function
//! the contracts use. Self-tested at start-up against sha3 / stellar-xdr (`self_test`).

// ---------------------------------------------------------------------------------------------
// Keccak-256 (original Keccak padding 0x01, rate 136)

const RC: [u64; 24] = [
    0x0000000000000001, 0x0000000000008082, 0x800000000000808a, 0x8000000080008000,
    0x000000000000808b, 0x0000000080000001, 0x8000000080008081, 0x8000000000008009,
    0x000000000000008a, 0x0000000000000088, 0x0000000080008009, 0x000000008000000a,
    0x000000008000808b, 0x800000000000008b, 0x8000000000008089, 0x8000000000008003,
    0x8000000000008002, 0x8000000000000080, 0x000000000000800a, 0x800000008000000a,
    0x8000000080008081, 0x8000000000008080, 0x0000000080000001, 0x8000000080008008,
];
const ROTC: [u32; 24] = [1, 3, 6, 10, 15, 21, 28, 36, 45, 55, 2, 14, 27, 41, 56, 8, 25, 43, 62, 18, 39, 61, 20, 44];
const PILN: [usize; 24] = [10, 7, 11, 17, 18, 3, 5, 16, 8, 21, 24, 4, 15, 23, 19, 13, 12, 2, 20, 14, 22, 9, 6, 1];

fn keccak_f(st: &mut [u64; 25]) {
    for rc in RC.iter() {
        let mut bc = [0u64; 5];
        for i in 0..5 {
            bc[i] = st[i] ^ st[i + 5] ^ st[i + 10] ^ st[i + 15] ^ st[i + 20];
        }
        for i in 0..5 {
            let t = bc[(i + 4) % 5] ^ bc[(i + 1) % 5].rotate_left(1);
            for j in (0..25).step_by(5) {
                st[j + i] ^= t;
            }
        }
        let mut t = st[1];
        for i in 0..24 {
            let j = PILN[i];
            let b = st[j];
            st[j] = t.rotate_left(ROTC[i]);
            t = b;
        }
        for j in (0..25).step_by(5) {
            let mut row = [0u64; 5];
            row.copy_from_slice(&st[j..j + 5]);
            for i in 0..5 {
                st[j + i] ^= (!row[(i + 1) % 5]) & row[(i + 2) % 5];
            }
        }
        st[0] ^= rc;
    }
}

pub fn keccak256(data: &[u8]) -> [u8; 32] {
    const RATE: usize = 136;
    let mut st = [0u64; 25];
    let mut chunks = data.chunks_exact(RATE);
    for c in &mut chunks {
        for i in 0..RATE / 8 {
            st[i] ^= u64::from_le_bytes(c[i * 8..i * 8 + 8].try_into().unwrap());
        }
        keccak_f(&mut st);
    }
    let rem = chunks.remainder();
    let mut last = [0u8; RATE];
    last[..rem.len()].copy_from_slice(rem);
    last[rem.len()] ^= 0x01;
    last[RATE - 1] ^= 0x80;
    for i in 0..RATE / 8 {
        st[i] ^= u64::from_le_bytes(last[i * 8..i * 8 + 8].try_into().unwrap());
    }
    keccak_f(&mut st);
    let mut out = [0u8; 32];
    for i in 0..4 {
        out[i * 8..i * 8 + 8].copy_from_slice(&st[i].to_le_bytes());
    }
    out
}

// ---------------------------------------------------------------------------------------------
// XDR ScVal writer (own), for the shapes the contracts hash.

#[derive(Clone, Debug, PartialEq, Eq)]
pub enum Sv {
    Void,
    Bool(bool),
    U32(u32),
    U64(u64),
    U128(u128),
    I128(i128),
    Bytes(Vec<u8>),
    Str(Vec<u8>),
    Sym(String),
    Vec(Vec<Sv>),
    /// struct: (field name, value); written as ScMap sorted by key
    Map(Vec<(String, Sv)>),
    /// account (ed25519 public key)
    Account([u8; 32]),
    /// contract id hash
    Contract([u8; 32]),
}

fn put_u32(o: &mut Vec<u8>, v: u32) {
    o.extend_from_slice(&v.to_be_bytes());
}
fn put_opaque(o: &mut Vec<u8>, b: &[u8]) {
    put_u32(o, b.len() as u32);
    o.extend_from_slice(b);
    let pad = (4 - b.len() % 4) % 4;
    o.extend(std::iter::repeat(0u8).take(pad));
}

impl Sv {
    pub fn write(&self, o: &mut Vec<u8>) {
        match self {
            Sv::Bool(b) => {
                put_u32(o, 0);
                put_u32(o, *b as u32);
            }
            Sv::Void => put_u32(o, 1),
            Sv::U32(v) => {
                put_u32(o, 3);
                put_u32(o, *v);
            }
            Sv::U64(v) => {
                put_u32(o, 5);
                o.extend_from_slice(&v.to_be_bytes());
            }
            Sv::U128(v) => {
                put_u32(o, 9);
                o.extend_from_slice(&v.to_be_bytes()); // hi u64 then lo u64, both BE == 16-byte BE
            }
            Sv::I128(v) => {
                put_u32(o, 10);
                o.extend_from_slice(&v.to_be_bytes());
            }
            Sv::Bytes(b) => {
                put_u32(o, 13);
                put_opaque(o, b);
            }
            Sv::Str(b) => {
                put_u32(o, 14);
                put_opaque(o, b);
            }
            Sv::Sym(s) => {
                put_u32(o, 15);
                put_opaque(o, s.as_bytes());
            }
            Sv::Vec(v) => {
                put_u32(o, 16);
                put_u32(o, 1); // optional present
                put_u32(o, v.len() as u32);
                for e in v {
                    e.write(o);
                }
            }
            Sv::Map(m) => {
                let mut m = m.clone();
                m.sort_by(|a, b| a.0.as_bytes().cmp(b.0.as_bytes()));
                put_u32(o, 17);
                put_u32(o, 1);
                put_u32(o, m.len() as u32);
                for (k, v) in &m {
                    Sv::Sym(k.clone()).write(o);
                    v.write(o);
                }
            }
            Sv::Account(k) => {
                put_u32(o, 18);
                put_u32(o, 0); // SC_ADDRESS_TYPE_ACCOUNT
                put_u32(o, 0); // PUBLIC_KEY_TYPE_ED25519
                o.extend_from_slice(k);
            }
            Sv::Contract(h) => {
                put_u32(o, 18);
                put_u32(o, 1);
                o.extend_from_slice(h);
            }
        }
    }
    pub fn xdr(&self) -> Vec<u8> {
        let mut o = vec![];
        self.write(&mut o);
        o
    }
    pub fn sym(s: &str) -> Sv {
        Sv::Sym(s.to_string())
    }
    pub fn str(s: &str) -> Sv {
        Sv::Str(s.as_bytes().to_vec())
    }
}

// ---------------------------------------------------------------------------------------------
// Solidity ABI codec for the ITS message structs (own implementation, std types only)

pub type Word = [u8; 32];

pub fn word_u64(v: u64) -> Word {
    let mut w = [0u8; 32];
    w[24..].copy_from_slice(&v.to_be_bytes());
    w
}
pub fn word_u128(v: u128) -> Word {
    let mut w = [0u8; 32];
    w[16..].copy_from_slice(&v.to_be_bytes());
    w
}

#[derive(Clone, Debug, PartialEq, Eq, serde::Serialize, serde::Deserialize)]
pub enum AMsg {
    Transfer { token_id: [u8; 32], source: Vec<u8>, dest: Vec<u8>, amount: Word, data: Vec<u8> },
    Deploy { token_id: [u8; 32], name: Vec<u8>, symbol: Vec<u8>, decimals: Word, minter: Vec<u8> },
}

#[derive(Clone, Debug, PartialEq, Eq, serde::Serialize, serde::Deserialize)]
pub enum AHub {
    Send { chain: Vec<u8>, inner: Vec<u8> },
    Receive { chain: Vec<u8>, inner: Vec<u8> },
}

fn pad32(n: usize) -> usize {
    (n + 31) / 32 * 32
}

/// one field of a struct's parameter tuple
enum F<'a> {
    Static(Word),
    Dyn(&'a [u8]),
}

fn encode_tuple(fields: &[F]) -> Vec<u8> {
    let head_len = 32 * fields.len();
    let mut head = Vec::with_capacity(head_len);
    let mut tail: Vec<u8> = vec![];
    for f in fields {
        match f {
            F::Static(w) => head.extend_from_slice(w),
            F::Dyn(b) => {
                head.extend_from_slice(&word_u64((head_len + tail.len()) as u64));
                tail.extend_from_slice(&word_u64(b.len() as u64));
                tail.extend_from_slice(b);
                tail.extend(std::iter::repeat(0u8).take(pad32(b.len()) - b.len()));
            }
        }
    }
    head.extend(tail);
    head
}

/// A well-formed but possibly non-canonical layout of the same tuple: the tails of the dynamic fields are
/// emitted in another order (`order`: a seed for the permutation), `gap` zero words are put between the
/// head and the first tail, and equal dynamic fields may share one tail. The canonical layout is
/// (order 0, gap 0, share false).
#[derive(Clone, Copy, Debug, PartialEq, Eq, serde::Serialize, serde::Deserialize)]
pub struct Layout {
    pub order: u8,
    pub gap: u8,
    pub share: bool,
}

impl Layout {
    pub fn is_canonical(&self, n_dyn: usize) -> bool {
        self.gap == 0 && !self.share && (n_dyn < 2 || self.order as usize % fact(n_dyn) == 0)
    }
}

fn fact(n: usize) -> usize {
    (1..=n).product::<usize>().max(1)
}

/// k-th permutation of 0..n (k = 0 is the identity)
fn permutation(n: usize, mut k: usize) -> Vec<usize> {
    let mut items: Vec<usize> = (0..n).collect();
    let mut out = vec![];
    for i in (1..=n).rev() {
        let f = fact(i - 1);
        let idx = (k / f) % i;
        k %= f;
        out.push(items.remove(idx));
    }
    out
}

fn encode_tuple_layout(fields: &[F], l: Layout) -> Vec<u8> {
    let head_len = 32 * fields.len();
    let dyn_idx: Vec<usize> = fields.iter().enumerate().filter(|(_, f)| matches!(f, F::Dyn(_))).map(|(i, _)| i).collect();
    let perm = permutation(dyn_idx.len(), l.order as usize % fact(dyn_idx.len()));
    let mut tail: Vec<u8> = vec![0u8; 32 * l.gap as usize];
    let mut offsets: std::collections::BTreeMap<usize, usize> = Default::default();
    let mut placed: Vec<(Vec<u8>, usize)> = vec![];
    for p in perm {
        let fi = dyn_idx[p];
        let F::Dyn(b) = &fields[fi] else { unreachable!() };
        if l.share {
            if let Some((_, off)) = placed.iter().find(|(c, _)| c.as_slice() == *b) {
                offsets.insert(fi, *off);
                continue;
            }
        }
        let off = head_len + tail.len();
        offsets.insert(fi, off);
        placed.push((b.to_vec(), off));
        tail.extend_from_slice(&word_u64(b.len() as u64));
        tail.extend_from_slice(b);
        tail.extend(std::iter::repeat(0u8).take(pad32(b.len()) - b.len()));
    }
    let mut head = Vec::with_capacity(head_len);
    for (i, f) in fields.iter().enumerate() {
        match f {
            F::Static(w) => head.extend_from_slice(w),
            F::Dyn(_) => head.extend_from_slice(&word_u64(offsets[&i] as u64)),
        }
    }
    head.extend(tail);
    head
}

impl AMsg {
    pub fn encode_layout(&self, l: Layout) -> Vec<u8> {
        match self {
            AMsg::Transfer { token_id, source, dest, amount, data } => {
                encode_tuple_layout(&[F::Static(word_u64(0)), F::Static(*token_id), F::Dyn(source), F::Dyn(dest), F::Static(*amount), F::Dyn(data)], l)
            }
            AMsg::Deploy { token_id, name, symbol, decimals, minter } => {
                encode_tuple_layout(&[F::Static(word_u64(1)), F::Static(*token_id), F::Dyn(name), F::Dyn(symbol), F::Static(*decimals), F::Dyn(minter)], l)
            }
        }
    }
    pub fn encode(&self) -> Vec<u8> {
        match self {
            AMsg::Transfer { token_id, source, dest, amount, data } => encode_tuple(&[
                F::Static(word_u64(0)),
                F::Static(*token_id),
                F::Dyn(source),
                F::Dyn(dest),
                F::Static(*amount),
                F::Dyn(data),
            ]),
            AMsg::Deploy { token_id, name, symbol, decimals, minter } => encode_tuple(&[
                F::Static(word_u64(1)),
                F::Static(*token_id),
                F::Dyn(name),
                F::Dyn(symbol),
                F::Static(*decimals),
                F::Dyn(minter),
            ]),
        }
    }
}

impl AHub {
    pub fn encode_layout(&self, l: Layout) -> Vec<u8> {
        match self {
            AHub::Send { chain, inner } => encode_tuple_layout(&[F::Static(word_u64(3)), F::Dyn(chain), F::Dyn(inner)], l),
            AHub::Receive { chain, inner } => encode_tuple_layout(&[F::Static(word_u64(4)), F::Dyn(chain), F::Dyn(inner)], l),
        }
    }
    pub fn encode(&self) -> Vec<u8> {
        match self {
            AHub::Send { chain, inner } => encode_tuple(&[F::Static(word_u64(3)), F::Dyn(chain), F::Dyn(inner)]),
            AHub::Receive { chain, inner } => encode_tuple(&[F::Static(word_u64(4)), F::Dyn(chain), F::Dyn(inner)]),
        }
    }
}

/// Strict canonical decoder: accepts exactly the byte strings `encode_tuple` can produce for
/// the given shape (`true` = dynamic field). Returns the fields (static words / dynamic bytes).
fn decode_tuple_canonical(b: &[u8], shape: &[bool]) -> Option<Vec<Vec<u8>>> {
    let head_len = 32 * shape.len();
    if b.len() < head_len {
        return None;
    }
    let mut out = vec![];
    let mut next_tail = head_len;
    for (i, dynamic) in shape.iter().enumerate() {
        let w = &b[32 * i..32 * i + 32];
        if !*dynamic {
            out.push(w.to_vec());
        } else {
            // offset must be the canonical one
            if w[..24].iter().any(|x| *x != 0) {
                return None;
            }
            let off = u64::from_be_bytes(w[24..].try_into().unwrap());
            if off != next_tail as u64 {
                return None;
            }
            if b.len() < next_tail + 32 {
                return None;
            }
            let lw = &b[next_tail..next_tail + 32];
            if lw[..24].iter().any(|x| *x != 0) {
                return None;
            }
            let len = u64::from_be_bytes(lw[24..].try_into().unwrap());
            if len > (b.len() as u64) {
                return None;
            }
            let len = len as usize;
            let start = next_tail + 32;
            let end = start + pad32(len);
            if b.len() < end {
                return None;
            }
            if b[start + len..end].iter().any(|x| *x != 0) {
                return None;
            }
            out.push(b[start..start + len].to_vec());
            next_tail = end;
        }
    }
    if b.len() != next_tail {
        return None;
    }
    Some(out)
}

fn word_is_small(w: &[u8], max: u64) -> Option<u64> {
    if w[..24].iter().any(|x| *x != 0) {
        return None;
    }
    let v = u64::from_be_bytes(w[24..].try_into().unwrap());
    if v <= max {
        Some(v)
    } else {
        None
    }
}

/// What the statement allows `Message::abi_decode` to accept.
#[derive(Clone, Debug, PartialEq, Eq)]
pub struct DecodedMsg {
    pub msg: AMsg,
}

pub fn decode_msg_canonical(b: &[u8]) -> Option<AMsg> {
    if b.len() < 32 {
        return None;
    }
    let ty = word_is_small(&b[..32], 4)?;
    match ty {
        0 => {
            let f = decode_tuple_canonical(b, &[false, false, true, true, false, true])?;
            let amount: Word = f[4].clone().try_into().unwrap();
            // amounts above 2^127-1 are rejected
            if amount[..16].iter().any(|x| *x != 0) || amount[16] & 0x80 != 0 {
                return None;
            }
            Some(AMsg::Transfer {
                token_id: f[1].clone().try_into().unwrap(),
                source: f[2].clone(),
                dest: f[3].clone(),
                amount,
                data: f[5].clone(),
            })
        }
        1 => {
            let f = decode_tuple_canonical(b, &[false, false, true, true, false, true])?;
            let decimals: Word = f[4].clone().try_into().unwrap();
            word_is_small(&decimals, 255)?;
            std::str::from_utf8(&f[2]).ok()?;
            std::str::from_utf8(&f[3]).ok()?;
            Some(AMsg::Deploy {
                token_id: f[1].clone().try_into().unwrap(),
                name: f[2].clone(),
                symbol: f[3].clone(),
                decimals,
                minter: f[5].clone(),
            })
        }
        _ => None,
    }
}

pub fn decode_hub_canonical(b: &[u8]) -> Option<(AHub, AMsg)> {
    if b.len() < 32 {
        return None;
    }
    let ty = word_is_small(&b[..32], 4)?;
    if ty != 3 && ty != 4 {
        return None;
    }
    let f = decode_tuple_canonical(b, &[false, true, true])?;
    std::str::from_utf8(&f[1]).ok()?;
    let inner = decode_msg_canonical(&f[2])?;
    let hub = if ty == 3 {
        AHub::Send { chain: f[1].clone(), inner: f[2].clone() }
    } else {
        AHub::Receive { chain: f[1].clone(), inner: f[2].clone() }
    };
    Some((hub, inner))
}

// ---------------------------------------------------------------------------------------------
// contract address derivation: sha256(XDR(HashIdPreimage::ContractId{network_id, FromAddress{deployer, salt}}))

pub fn contract_id_from_address(network_id: &[u8; 32], deployer: &Sv, salt: &[u8; 32]) -> [u8; 32] {
    use sha2::{Digest, Sha256};
    let mut o = vec![];
    put_u32(&mut o, 8); // ENVELOPE_TYPE_CONTRACT_ID
    o.extend_from_slice(network_id);
    put_u32(&mut o, 0); // CONTRACT_ID_PREIMAGE_FROM_ADDRESS
    match deployer {
        Sv::Account(k) => {
            put_u32(&mut o, 0);
            put_u32(&mut o, 0);
            o.extend_from_slice(k);
        }
        Sv::Contract(h) => {
            put_u32(&mut o, 1);
            o.extend_from_slice(h);
        }
        _ => panic!("deployer must be an address"),
    }
    o.extend_from_slice(salt);
    Sha256::digest(&o).into()
}

// ---------------------------------------------------------------------------------------------
// self test

pub fn self_test() -> Result<(), String> {
    use sha3::{Digest, Keccak256};
    // keccak vs sha3 crate on a deterministic family of inputs around the rate boundary
    let mut data = vec![];
    let mut x: u32 = 0x1234_5678;
    for len in (0..300).chain([1000, 4096, 65536]) {
        data.clear();
        for _ in 0..len {
            x = x.wrapping_mul(1664525).wrapping_add(1013904223);
            data.push((x >> 24) as u8);
        }
        let a = keccak256(&data);
        let b: [u8; 32] = Keccak256::digest(&data).into();
        if a != b {
            return Err(format!("keccak self-test failed at len {}", len));
        }
    }
    // XDR writer vs stellar-xdr
    use soroban_sdk::xdr::{self, Limits, WriteXdr};
    let samples: Vec<(Sv, xdr::ScVal)> = vec![
        (Sv::Void, xdr::ScVal::Void),
        (Sv::Bool(true), xdr::ScVal::Bool(true)),
        (Sv::U32(7), xdr::ScVal::U32(7)),
        (Sv::U64(u64::MAX - 3), xdr::ScVal::U64(u64::MAX - 3)),
        (
            Sv::U128(u128::MAX - 5),
            xdr::ScVal::U128(xdr::UInt128Parts { hi: u64::MAX, lo: u64::MAX - 5 }),
        ),
        (Sv::I128(-2), xdr::ScVal::I128(xdr::Int128Parts { hi: -1, lo: u64::MAX - 1 })),
        (Sv::Bytes(vec![1, 2, 3, 4, 5]), xdr::ScVal::Bytes(xdr::ScBytes(vec![1u8, 2, 3, 4, 5].try_into().unwrap()))),
        (Sv::str("héllo"), xdr::ScVal::String(xdr::ScString("héllo".try_into().unwrap()))),
        (Sv::sym("abc_d"), xdr::ScVal::Symbol(xdr::ScSymbol("abc_d".try_into().unwrap()))),
        (
            Sv::Vec(vec![Sv::sym("A"), Sv::U32(1)]),
            xdr::ScVal::Vec(Some(xdr::ScVec(
                vec![xdr::ScVal::Symbol(xdr::ScSymbol("A".try_into().unwrap())), xdr::ScVal::U32(1)].try_into().unwrap(),
            ))),
        ),
        (
            Sv::Map(vec![("b".into(), Sv::U32(2)), ("a".into(), Sv::Void)]),
            xdr::ScVal::Map(Some(xdr::ScMap(
                vec![
                    xdr::ScMapEntry { key: xdr::ScVal::Symbol(xdr::ScSymbol("a".try_into().unwrap())), val: xdr::ScVal::Void },
                    xdr::ScMapEntry { key: xdr::ScVal::Symbol(xdr::ScSymbol("b".try_into().unwrap())), val: xdr::ScVal::U32(2) },
                ]
                .try_into()
                .unwrap(),
            ))),
        ),
        (
            Sv::Account([9u8; 32]),
            xdr::ScVal::Address(xdr::ScAddress::Account(xdr::AccountId(xdr::PublicKey::PublicKeyTypeEd25519(xdr::Uint256([9u8; 32]))))),
        ),
        (Sv::Contract([7u8; 32]), xdr::ScVal::Address(xdr::ScAddress::Contract(xdr::Hash([7u8; 32])))),
    ];
    for (mine, theirs) in samples {
        let a = mine.xdr();
        let b = theirs.to_xdr(Limits::none()).map_err(|e| e.to_string())?;
        if a != b {
            return Err(format!("xdr self-test failed for {:?}", mine));
        }
    }
    // contract id preimage
    let pre = xdr::HashIdPreimage::ContractId(xdr::HashIdPreimageContractId {
        network_id: xdr::Hash([3u8; 32]),
        contract_id_preimage: xdr::ContractIdPreimage::Address(xdr::ContractIdPreimageFromAddress {
            address: xdr::ScAddress::Contract(xdr::Hash([7u8; 32])),
            salt: xdr::Uint256([5u8; 32]),
        }),
    });
    let b: [u8; 32] = {
        use sha2::{Digest as _, Sha256};
        Sha256::digest(pre.to_xdr(Limits::none()).map_err(|e| e.to_string())?).into()
    };
    if contract_id_from_address(&[3u8; 32], &Sv::Contract([7u8; 32]), &[5u8; 32]) != b {
        return Err("contract id self-test failed".into());
    }
    // ABI: golden vector (Solidity abi.encode(uint256(0), bytes32, bytes, bytes, uint256, bytes))
    let m = AMsg::Transfer { token_id: [0x11; 32], source: vec![1, 2, 3], dest: vec![], amount: word_u64(5), data: vec![0xaa; 33] };
    let e = m.encode();
    if e.len() != 32 * 6 + 64 + 32 + 32 + 64 {
        return Err("abi layout self-test failed".into());
    }
    if decode_msg_canonical(&e) != Some(m) {
        return Err("abi round trip self-test failed".into());
    }
    Ok(())
}
