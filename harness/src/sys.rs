//! "System" world with every production contract deployed and all role holders drawn from a
//! pool of principals; used by the authorisation matrices (C06, C07) and the upgrade checks (C15).

use crate::world::*;
use axelar_gas_service::{AxelarGasService, AxelarGasServiceClient};
use axelar_gateway::{AxelarGateway, AxelarGatewayClient};
use axelar_operators::{AxelarOperators, AxelarOperatorsClient};
use interchain_token::InterchainTokenClient;
use interchain_token_service::{InterchainTokenService, InterchainTokenServiceClient};
use soroban_sdk::testutils::Address as _;
use soroban_sdk::token::StellarAssetClient;
use soroban_sdk::{Address, BytesN, Env, Vec as SVec};

pub const POOL: usize = 10;
// pool indices of the initial role holders
pub const GW_OWNER: usize = 0;
pub const GW_OPERATOR: usize = 1;
pub const GAS_OWNER: usize = 2;
pub const GAS_COLLECTOR: usize = 3;
pub const OPS_OWNER: usize = 4;
pub const ITS_OWNER: usize = 5;
pub const TOKEN_OWNER: usize = 6;
pub const EXTRA_A: usize = 7;
pub const EXTRA_B: usize = 8;
pub const STRANGER: usize = 9;

pub struct Sys<'a> {
    pub env: Env,
    pub pool: Vec<Address>,
    pub set: BuiltSet,
    pub domain: [u8; 32],
    pub gw: AxelarGatewayClient<'a>,
    pub gas: AxelarGasServiceClient<'a>,
    pub ops: AxelarOperatorsClient<'a>,
    pub its: InterchainTokenServiceClient<'a>,
    pub token: InterchainTokenClient<'a>,
    /// a Stellar asset contract used as gas / fee token
    pub asset: Address,
    pub asset_admin: Address,
    /// the address administrative calls name as beneficiary / successor (default: pool[EXTRA_A])
    pub named: Address,
}

pub fn build_sys<'a>() -> Sys<'a> {
    build_sys_cfg(false)
}

/// `single_key`: one address holds both roles of the gateway (owner = operator) and of the gas service
/// (owner = collector) at deployment, and the stand-alone token is constructed with pool[EXTRA_A] as its minter
pub fn build_sys_cfg<'a>(single_key: bool) -> Sys<'a> {
    let env = new_env();
    let mut pool: Vec<Address> = (0..POOL).map(|_| Address::generate(&env)).collect();
    if single_key {
        pool[GW_OPERATOR] = pool[GW_OWNER].clone();
        pool[GAS_COLLECTOR] = pool[GAS_OWNER].clone();
    }
    let set = simple_set(1);
    let domain = [0x42u8; 32];
    let mut sets = SVec::new(&env);
    sets.push_back(set.to_soroban(&env));
    let gw_id = env.register(
        AxelarGateway,
        (pool[GW_OWNER].clone(), pool[GW_OPERATOR].clone(), BytesN::from_array(&env, &domain), 0u64, 2u64, sets),
    );
    let gas_id = env.register(AxelarGasService, (&pool[GAS_OWNER], &pool[GAS_COLLECTOR]));
    let ops_id = env.register(AxelarOperators, (&pool[OPS_OWNER],));
    let its_id = env.register(
        InterchainTokenService,
        (&pool[ITS_OWNER], &gw_id, &gas_id, sstr(&env, "hub-address"), sstr(&env, "stellar"), BytesN::from_array(&env, &empty_wasm_hash())),
    );
    // in the alternative deployment the token is constructed with a minter (who may later be added again and removed)
    let initial_minter = if single_key { Some(pool[EXTRA_A].clone()) } else { None };
    let token = register_native_token(&env, &pool[TOKEN_OWNER], initial_minter, h32("sys-token", 0), "Sys", "SYS", 7);
    let asset_admin = Address::generate(&env);
    let asset = env.register_stellar_asset_contract_v2(asset_admin.clone()).address();
    Sys {
        gw: AxelarGatewayClient::new(&env, &gw_id),
        gas: AxelarGasServiceClient::new(&env, &gas_id),
        ops: AxelarOperatorsClient::new(&env, &ops_id),
        its: InterchainTokenServiceClient::new(&env, &its_id),
        token,
        asset,
        asset_admin,
        named: pool[EXTRA_A].clone(),
        env,
        pool,
        set,
        domain,
    }
}

impl<'a> Sys<'a> {
    /// mint `amount` of the gas asset to `to` (setup; all auths mocked)
    pub fn fund(&self, to: &Address, amount: i128) {
        self.env.mock_all_auths();
        StellarAssetClient::new(&self.env, &self.asset).mint(to, &amount);
    }
}
