use vcheck_lib::engine::Tier;
use vcheck_lib::{engine, oracle, props, sweep};
use std::path::PathBuf;

fn usage() -> ! {
    eprintln!("usage: vcheck <C01..C18> <quick|thorough> | vcheck <ID> --replay <file> | vcheck --selftest");
    std::process::exit(2)
}

fn main() {
    engine::install_quiet_panic_hook();
    let args: Vec<String> = std::env::args().skip(1).collect();
    if args.is_empty() {
        usage();
    }
    if let Err(e) = oracle::self_test() {
        eprintln!("oracle self-test failed: {}", e);
        std::process::exit(2);
    }
    if args[0] == "--selftest" {
        println!("oracle self-test ok");
        return;
    }
    if args[0] == "--inventory" {
        for e in sweep::scan_repo() {
            println!("{}::{} {:?}{}{}", e.contract, e.name, e.types, if e.unlisted { " UNLISTED" } else { "" }, if e.types.iter().all(|t| sweep::probeable(t)) { "" } else { " (not swept: argument type without a generator)" });
        }
        println!("storage key names: {:?}", sweep::scan_key_names());
        return;
    }
    if args[0] == "--feature-sequences" {
        // the deterministic sequences around entry points the pinned inventory does not know (names and argument seeds)
        for c in sweep::fixed_cases(args.get(1).and_then(|x| x.parse().ok()).unwrap_or(300)) {
            if c.more.is_empty() {
                continue;
            }
            let mut line = format!("pick={} {}{:?}", c.pick, c.ep.name, c.seeds);
            for (e, s, _) in &c.more {
                line.push_str(&format!(" {}{:?}", e.name, s));
            }
            println!("{}", line);
        }
        return;
    }
    if args[0] == "--fuzz-roundtrip" {
        // self-test of the fuzz plumbing: a recorded random case must be regenerated identically from its bytes
        let mut bad = 0;
        for (id, same, diff) in props::fuzz_roundtrip_all(40) {
            println!("{} identical: {}/40", id, same);
            if let Some((a, b)) = diff {
                bad += 1;
                println!("  A: {}\n  B: {}", &a[..a.len().min(400)], &b[..b.len().min(400)]);
            }
        }
        std::process::exit(if bad == 0 { 0 } else { 2 });
    }
    if args[0] == "--fuzz-replay" {
        // vcheck --fuzz-replay <ID> <bytes file>: what the fuzz target does with one input
        let id = args.get(1).map(|s| s.to_uppercase()).unwrap_or_default();
        let data = std::fs::read(args.get(2).expect("file")).expect("read");
        match props::fuzz(&id, &data) {
            Some((case, reason)) => {
                println!("FAIL: {}\ncase: {}", reason, &case[..case.len().min(2000)]);
                std::process::exit(1);
            }
            None => println!("ok ({} bytes)", data.len()),
        }
        return;
    }
    if args[0] == "--emit-fuzz-seeds" {
        // vcheck --emit-fuzz-seeds <ID> <dir> [n]
        let id = args.get(1).map(|s| s.to_uppercase()).unwrap_or_default();
        let dir = PathBuf::from(args.get(2).map(|s| s.as_str()).unwrap_or("seeds"));
        let n: usize = args.get(3).and_then(|s| s.parse().ok()).unwrap_or(64);
        std::fs::create_dir_all(&dir).unwrap();
        for (i, b) in props::fuzz_seeds(&id, n, engine::seed_from_env()).into_iter().enumerate() {
            std::fs::write(dir.join(format!("seed-{:03}", i)), b).unwrap();
        }
        return;
    }
    if args[0] == "--emit-c10-seeds" {
        let dir = PathBuf::from(args.get(1).map(|s| s.as_str()).unwrap_or("seeds"));
        std::fs::create_dir_all(&dir).unwrap();
        for (i, b) in props::c10::seed_inputs().into_iter().enumerate() {
            std::fs::write(dir.join(format!("seed-{:02}", i)), b).unwrap();
        }
        return;
    }
    if args.len() < 2 {
        usage();
    }
    let id = args[0].to_uppercase();
    let code = if args[1] == "--replay" {
        if args.len() < 3 {
            usage();
        }
        props::replay(&id, &PathBuf::from(&args[2]))
    } else {
        let tier = match args[1].as_str() {
            "quick" => Tier::Quick,
            "thorough" => Tier::Thorough,
            _ => usage(),
        };
        props::run(&id, tier, engine::seed_from_env())
    };
    std::process::exit(code);
}
