fn main() {}
