#!/usr/bin/env python3
"""Regenerates /verif/MANIFEST.json from the table below (kept valid at all times)."""
import json, os
ROOT = os.path.dirname(os.path.dirname(os.path.abspath(__file__)))
props = [json.loads(l) for l in open(os.path.join(ROOT, "properties.jsonl"))]
ids = [p["id"] for p in props]

# id -> (technique, level text, level note, design ref)
CLAIMED = {}
def claim(i, technique, text, note, ref):
    CLAIMED[i] = (technique, text, note, ref)

exec(open(os.path.join(ROOT, "bin", "claims.py")).read())

checks = []
for i in ids:
    if i not in CLAIMED:
        continue
    technique, text, note, ref = CLAIMED[i]
    checks.append({
        "property_id": i,
        "quick_cmd": f"bin/check {i} quick",
        "thorough_cmd": f"bin/check {i} thorough",
        "evidence_file": f"/verif/evidence/{i}.json",
        "replay_cmd_template": f"bin/check {i} --replay {{path}}",
        "engine": "vcheck",
        "level_claimed": {"category": "exploration", "text": text, "design_ref": ref},
        "level_note": note,
        "technique": technique + ("" if i == "C10" else "; the thorough tier adds a coverage-guided libFuzzer stage whose input bytes are the random choices of the same proptest strategy (executor and oracle in-target)"),
    })
na = [{"property_id": i, "reason": "check not built yet in this session (work in progress; see DESIGN.md section 8)"} for i in ids if i not in CLAIMED]
m = {
    "version": 1,
    "setup_cmd": "bin/setup",
    "hooks": {
        "guard": "axelar_cgp_soroban_verif",
        "enable": "no hooks are needed: every check drives the contracts through their public entry points under the soroban-sdk test host (RUSTFLAGS='--cfg axelar_cgp_soroban_verif' is reserved and unused)",
        "baseline_off_cmd": "cd /repo && cargo test --workspace --no-fail-fast --offline",
        "source_commits": [],
        "add_only": True,
    },
    "engines": [
        {"name": "vcheck", "path": "harness", "serves_properties": sorted(CLAIMED), "kind_free_text": "Rust binary: seeded parallel proptest driver (manual shrinking, replay files, known-finding handling, evidence) over native soroban-sdk test-host worlds, with independent oracles (own Keccak-256, XDR writer, ABI codec, reference models)"},
        {"name": "fuzz-abi", "path": "fuzz", "serves_properties": ["C10"] if "C10" in CLAIMED else [], "kind_free_text": "cargo-fuzz/libFuzzer target abi_decode (stable toolchain, --sanitizer none) with the C10 differential oracle in-target"},
        {"name": "fuzz-prop", "path": "fuzz", "serves_properties": sorted(x for x in CLAIMED if x != "C10"), "kind_free_text": "cargo-fuzz/libFuzzer target prop (stable toolchain, --sanitizer none): generic coverage-guided stage of the thorough tier; the fuzzer's bytes drive the property's own proptest strategy through a pass-through RNG (harness union OneOf avoids RNG forks), the generated case runs through the same executor and oracle; failing cases are handed to vcheck, which re-runs, shrinks and reports them"},
    ],
    "checks": checks,
    "not_applicable": na,
    "notes": "All checks rebuild the harness (path dependencies on /repo) before running, so they always test /repo's working tree. Exit 2 = inconclusive (build failure / watchdog), never a verdict. Fix commits in /repo: see known_findings.json (status fixed).",
}
if not na:
    del m["not_applicable"]
json.dump(m, open(os.path.join(ROOT, "MANIFEST.json"), "w"), indent=1)
print("claimed:", sorted(CLAIMED), "not applicable:", [x["property_id"] for x in na])
