#!/opt/veriftools/pyvenv/bin/python
import json, jsonschema, glob, sys, os
ROOT = os.path.dirname(os.path.dirname(os.path.abspath(__file__)))
jsonschema.validate(json.load(open(f'{ROOT}/MANIFEST.json')), json.load(open('/root/.vp/MANIFEST.schema.json')))
es = json.load(open('/root/.vp/EVIDENCE.schema.json'))
for f in sorted(glob.glob(f'{ROOT}/evidence/*.json')):
    jsonschema.validate(json.load(open(f)), es)
    print('ok', f)
print('manifest ok')
