#!/usr/bin/env python3
"""Rewrites the table of DESIGN.md §9 from seeded/*/meta.json (text before and after the table is kept)."""
import json,glob,os
ROOT=os.path.dirname(os.path.dirname(os.path.abspath(__file__)))
s=open(f'{ROOT}/DESIGN.md').read()
a=s.index('| seeded change | what it does / what it needs | result |')
b=s.index('**What the misses taught')
def esc(x): return x.replace('|','\\|').replace('\n',' ')
rows="| seeded change | what it does / what it needs | result |\n|---|---|---|\n"
n=0; missed=0
for d in sorted(glob.glob(f'{ROOT}/seeded/*/meta.json')):
    m=json.load(open(d)); name=os.path.basename(os.path.dirname(d)); n+=1
    res=m['our_checks']['result']
    first_missed = 'MISSED' in res
    own_missed = m['our_checks'].get('strengthened',False)
    if own_missed: missed+=1
    tag='**missed at first, check strengthened** — ' if own_missed else ''
    rows+=f"| `{name}` | {esc(m.get('summary','')[:260])} *Needs:* {esc(m.get('needs','')[:200])} | {tag}{esc(res[:360])} |\n"
rows+=f"\n({n} seeded changes so far; {missed} of them were missed by at least one targeted check as first built and led to a strengthening.)\n\n"
open(f'{ROOT}/DESIGN.md','w').write(s[:a]+rows+s[b:])
print(n,'seeds,',missed,'strengthenings')
