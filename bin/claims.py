# one claim(...) per property that has a working check
claim("C12", "stateful property-based testing (proptest op histories) against a reference token ledger",
      "Random operation histories on the current-source token compared step by step with a reference ledger (balances, allowances with expiry, minters, owner, supply, standard events). Sampled, not exhaustive: it can show violations, not absence.",
      "soroban-sdk test host (storage, TTL, auth mocking) trusted; authorisation itself is C06/C07's business (all auths mocked here)", "DESIGN.md §3 C12")
