# one claim(...) per property that has a working check
claim("C12", "stateful property-based testing (proptest op histories) against a reference token ledger",
      "Random operation histories on the current-source token compared step by step with a reference ledger (balances, allowances with expiry, minters, owner, supply, standard events). Sampled, not exhaustive: it can show violations, not absence.",
      "soroban-sdk test host (storage, TTL, auth mocking) trusted; authorisation itself is C06/C07's business (all auths mocked here)", "DESIGN.md §3 C12")
claim("C01", "property-based testing (proptest) with an independent digest recipe and acceptance predicate",
      "Random gateway histories, signer sets, signing subsets and single perturbations of the proof / declared set / batch, on both validate_proof and approve_messages; accept/reject compared with an acceptance predicate computed from an independently derived digest (own Keccak-256 and XDR writer). Sampled search: finds violations, cannot show absence.",
      "ed25519-dalek verify_strict (same library as the host) decides signature validity; Keccak/XDR oracles self-tested against sha3 / stellar-xdr at start-up", "DESIGN.md §3 C01")
claim("C02", "stateful property-based testing (proptest histories) against a reference status map",
      "Random histories of batched approvals and consumption attempts over id pools built to collide, checked op by op against a forward-only status map, with event traces and a sweep of both status queries after every op.",
      "approvals carry honest 1-of-1 proofs (proof space is C01's); account callers are authorised with exact mock_auths trees", "DESIGN.md §3 C02")
claim("C03", "stateful property-based testing (proptest histories + constructor cases) with a well-formedness predicate and lookup-inverse invariant",
      "Random rotation-attempt histories and constructor cases with every malformation named in the statement; outcome compared with a predicate written from the statement; epoch/lookups checked to stay mutually inverse over all epochs and all hashes ever attempted; failures must leave the ledger snapshot identical.",
      "constructor cases deploy through the host's create-contract path (factory probe + native function table) so that failure atomicity is the host's real rollback", "DESIGN.md §3 C03")
claim("C08", "stateful property-based testing (proptest histories), every installed set probed after every step",
      "Random rotation histories for six retention settings; after each step every installed set is probed on the standalone-proof and the approval path and compared with current - epoch <= retention; rotation attempts by non-latest sets with and without bypass.",
      "minimum delay is 0 here (C09 studies the clock)", "DESIGN.md §3 C08")
claim("C09", "stateful property-based testing (proptest histories) with a harness-owned ledger clock and a clock model",
      "Random schedules of clock advances aimed at the delay boundary (-1/0/+1 s) interleaved with bypass and non-bypass rotation attempts (valid, invalid, duplicate candidates); outcomes compared with a last-success clock model.",
      "ledger timestamps are set by the harness and only move forward", "DESIGN.md §3 C09")
claim("C10", "property-based testing (proptest) + coverage-guided fuzzing (libFuzzer) with a differential/round-trip oracle against an independent ABI codec",
      "Structured messages are encoded by the contract codec and by an independent head/tail ABI encoder and compared byte for byte, then round-tripped; random and mutated byte strings must be accepted iff an independent strict canonical decoder accepts them, decode to the same message and re-encode to the input, without panics. Thorough adds a libFuzzer campaign (16 jobs) with the same oracle inside the target. Sampled/fuzzed: finds violations, cannot show absence.",
      "native 64-bit build; the one known dependency panic (known_findings.json) is tolerated by exact signature so the search continues", "DESIGN.md §3 C10")
claim("C13", "property-based testing (proptest) with an independent Keccak-256 and exact event-shape oracle",
      "Random senders (accounts with exact / missing / mismatching authorisation, contracts calling as themselves or naming others), destination strings and payloads around the Keccak rate up to 64 KiB; the single announcement event is compared field by field with independently computed values, gateway state must be unchanged, unauthorised calls must leave the ledger identical.",
      "host authorisation framework trusted; mock account contracts registered by mock_auths are set up before the snapshot", "DESIGN.md §3 C13")
claim("C04", "property-based testing (proptest): conforming delivery + single deviation over trusted-chain histories, effect/snapshot oracle",
      "Random trusted-chain histories and deliveries that deviate from a conforming one in exactly one respect named by the statement; effects must occur iff nothing deviates, every rejected delivery must leave the full ledger snapshot identical. Payloads are built by the harness's own ABI encoder. Sampled, not exhaustive.",
      "tokens deployed by ITS run the current source natively (function table injected at the deterministic address); one known finding is matched by exact key", "DESIGN.md §3 C04")
claim("C05", "stateful property-based testing (proptest histories) against a balance/custody/supply ledger model with independent payload encoding",
      "Random histories over both token kinds; every balance, custody and supply compared with a ledger model after every step; successful outbound transfers' announcements compared with the harness's own ABI encoding and Keccak; refused calls must leave the ledger snapshot identical.",
      "closed address pool (supply = sum of balances over it); the configuration of known finding C11 is excluded by construction; all authorisations mocked (C07 studies them)", "DESIGN.md §3 C05")
claim("C06", "exhaustive entry-point x principal matrix + property-based role-transfer histories, by record-and-substitute authorisation",
      "All 29 administrative entry points x 7 principal classes are enumerated in every run; proptest adds role-transfer histories. The authorisation trees a call needs are recorded in a twin world and replayed in a fresh one with exactly one principal signing; success iff that principal is the current holder per a role model; refusals must leave the ledger identical.",
      "world construction is deterministic (same addresses in twin and replay worlds); host authorisation framework trusted; accept-all account contracts stand for 'this address signed'", "DESIGN.md §3 C06")
claim("C11", "stateful property-based testing (proptest histories) with independent id/address derivation and a write-once registry model",
      "Random histories of local deployments, canonical registrations and remote deploy messages with collisions over two ITS instances; ids and addresses compared with own Keccak/XDR/sha256 derivations; registry write-once; post-deployment role, balance and metadata checks and a behavioural inbound-transfer probe on every deployed token.",
      "one known finding matched by exact configuration key; statement-undecided deployments counted as Either", "DESIGN.md §3 C11")
claim("C18", "property-based testing (proptest) with independent id derivation and payload encoding",
      "Random token kinds/metadata (incl. a harness token with unrepresentable metadata), callers, destinations, gas amounts and authorisation; success predicted from the statement's conditions; announced payload, gas event and service event compared field by field with independently computed values; only the gas payment may move funds; refusals leave the ledger identical.",
      "authorisation is all-or-nothing here (C07 studies who must authorise)", "DESIGN.md §3 C18")
claim("C07", "exhaustive entry-point x authoriser matrix + property-based state variation, by record-and-substitute authorisation",
      "All 17 entry points that act for a named address x 8 authoriser classes x allowance / ownership states are enumerated in every run; the (nested) authorisation trees are recorded in a twin world and replayed with exactly one principal signing, or the call is made by a probe contract with no entries. Success iff the named address authorised or is the calling contract; refusals must leave the ledger identical.",
      "deterministic world construction; host authorisation framework trusted; contract-caller class restricted to entry points whose only authorisation is at the entry point itself", "DESIGN.md §3 C07")
claim("C14", "stateful property-based testing (proptest histories) against a running-balance model",
      "Random histories of pay/add/collect/refund over three tokens (two asset contracts and the current-source token) with boundary amounts and four authoriser classes for payouts; service, spender and receiver balances compared with the running-balance equation after every step; one event per movement; refusals leave the ledger identical.",
      "payments are authorised by the spender (mocked; C07 studies that)", "DESIGN.md §3 C14")
claim("C15", "exhaustive bounded enumeration of upgrade/migrate sequences + full Upgrader matrix, plus property-based longer sequences, against a migration-window model",
      "All {upgrade,migrate}x{owner,former owner,stranger,nobody} sequences to length 3 (quick) / 4 (thorough) on the five production contracts and a derive-macro probe, with and without ownership transfer; the complete Upgrader matrix (target x requested version x authorisation coverage x migration data); random sequences to length 8. Failure atomicity by ledger-snapshot equality; the migration flag is read directly as a cross-check.",
      "upgrades use the empty-Wasm hash so that the current-source native entry points stay in place (no wasm32 toolchain); the committed dummy.wasm provides a real code change", "DESIGN.md §3 C15")
claim("C16", "exhaustive app x deviation matrix + property-based deliveries, effect/snapshot oracle",
      "Both apps (the shipped example and a minimal app using the interface's helper) x eleven approval situations enumerated; proptest samples deliveries (strings incl. empty, payloads to 600 bytes). Effect and gateway status change iff a matching unexecuted approval exists; otherwise the delivery fails with the ledger identical; second delivery always refused.",
      "approvals carry honest proofs", "DESIGN.md §3 C16")
claim("C17", "stateful property-based testing (proptest histories) against a set model with a recording probe target",
      "Random histories of add/remove/transfer-ownership/execute with four authoriser classes each; membership swept after every step; forwarded calls compared (function, arguments, return value) with the probe target's own log; failing targets and refused calls must leave the ledger identical.",
      "exact mock_auths trees per call", "DESIGN.md §3 C17")
