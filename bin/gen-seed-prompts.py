#!/usr/bin/env python3
"""Builds the sub-agent prompts of a seeding round: /tmp/seedwork/prompt<round>-<ID>.txt and the scratch
worktrees /tmp/seedwork/<ID> (with PROPERTY.json). The prompt contains the property text and short
summaries of changes already tried for it; nothing about how /verif detects anything."""
import json, glob, os, subprocess, sys
rnd = sys.argv[1]
hint = sys.argv[2] if len(sys.argv) > 2 else ""
base = open('/tmp/seedwork/PROMPT.txt').read() if os.path.exists('/tmp/seedwork/PROMPT.txt') else None
tmpl = open('/verif/bin/seed-prompt.tmpl').read()
props = [json.loads(l) for l in open('/verif/properties.jsonl')]
os.makedirs('/tmp/seedwork', exist_ok=True)
for p in props:
    pid = p['id']
    tried = []
    for m in sorted(glob.glob(f'/verif/seeded/{pid}*/meta.json')):
        s = json.load(open(m)).get('summary', '')
        tried.append('  - ' + s[:320].replace('\n', ' '))
    wt = f'/tmp/seedwork/{pid}'
    if not os.path.isdir(wt):
        subprocess.check_call(['git', '-C', '/repo', 'worktree', 'add', '--detach', wt, 'HEAD'], stdout=subprocess.DEVNULL, stderr=subprocess.DEVNULL)
    json.dump(p, open(f'{wt}/PROPERTY.json', 'w'), indent=1)
    txt = tmpl.replace('@ID@', pid).replace('@TRIED@', '\n'.join(tried)).replace('@HINT@', hint)
    open(f'/tmp/seedwork/prompt{rnd}-{pid}.txt', 'w').write(txt)
print('prompts written for round', rnd)
